#!/usr/bin/env python3
"""Runner for the coap-lite model checks (DESIGN.md 2.7).

  ./run.sh setup                      build every configuration once (offline)
  ./run.sh <ID> quick|thorough        run one property's check, write evidence/<ID>.json
  ./run.sh <ID> --replay <file>       re-execute exactly one stored counterexample
  ./run.sh baseline-off               repository test suite with the hook guard OFF

Exit codes: 0 property held on everything explored (known findings are printed as
KNOWN-FINDING lines), 1 at least one unlisted violation (VIOLATION lines), 2 machinery
failure (build error, engine crash, nondeterminism) - never a verdict.
"""
import json
import os
import re
import subprocess
import sys
import time

VERIF = os.path.dirname(os.path.abspath(__file__))
MC = os.path.join(VERIF, "mc")
# Detection self-tests (mutants/selftest.sh) run the same checks against a mutated COPY of /repo and must not
# touch the committed evidence: VERIF_REPO_OVERRIDE redirects the path dependency, VERIF_OUT_DIR the outputs.
REPO_OVERRIDE = os.environ.get("VERIF_REPO_OVERRIDE")
MUT = ""
if REPO_OVERRIDE:
    import hashlib
    MUT = "-mut-" + hashlib.md5(REPO_OVERRIDE.encode()).hexdigest()[:8]  # one build directory per overriding copy
OUT = os.environ.get("VERIF_OUT_DIR") or VERIF
EVID = os.path.join(OUT, "evidence")
PARTS = os.path.join(EVID, ".parts")
REPLAYS = os.path.join(OUT, "replays")
KNOWN = os.path.join(VERIF, "known_findings.jsonl")
SCHEMA = "/root/.vp/EVIDENCE.schema.json"

ENV = dict(os.environ)
ENV["CARGO_NET_OFFLINE"] = "true"
ENV.pop("RUSTFLAGS", None)  # mc/.cargo/config.toml sets --cfg coap_lite_verif

# ---------------------------------------------------------------------------
# build configurations (DESIGN.md 2.4)
# ---------------------------------------------------------------------------
CONFIGS = {
    "oc": dict(args=["--profile", "oc"], bin="target/oc/coapmc"),
    "rel": dict(args=["--profile", "rel"], bin="target/rel/coapmc"),
    # unoptimised, every check on; runs the input-size families of C02/C03 only, single-threaded with case tracing
    "dev0": dict(args=["--profile", "dev0"], bin="target/dev0/coapmc", env_run={"VERIF_TRACE_CASES": "1"}),
    "nostd": dict(
        args=["--profile", "oc", "--no-default-features", "--target-dir", "target-nostd"],
        bin="target-nostd/oc/coapmc",
    ),
    "udp": dict(
        args=["--profile", "oc", "--features", "udp", "--target-dir", "target-udp"],
        bin="target-udp/oc/coapmc",
    ),
    "realclock": dict(
        args=["--profile", "oc", "--no-default-features", "--features", "std", "--target-dir", "target-realclock"],
        bin="target-realclock/oc/coapmc",
    ),
    # interpreter run (Miri) of the C04 boundary slice: uninitialised-byte clause; executed through `cargo miri run`
    "miri": dict(miri=True, args=["--target-dir", "target-miri"], bin=None),
    "asan": dict(
        toolchain="+nightly",
        args=[
            "--profile", "oc", "--features", "asan", "--target", "x86_64-unknown-linux-gnu",
            "--target-dir", "target-asan",
        ],
        env={"RUSTFLAGS": "-Zsanitizer=address --cfg coap_lite_verif"},
        bin="target-asan/x86_64-unknown-linux-gnu/oc/coapmc",
    ),
}

# ---------------------------------------------------------------------------
# per-property table: level, rule text, configurations per tier
# ---------------------------------------------------------------------------
def P(level, rule, quick, thorough, exhaustive=True, text="", note="", technique=""):
    return dict(level=level, rule=rule, quick=quick, thorough=thorough, exhaustive=exhaustive, text=text, note=note,
                technique=technique)


PROPS = {
    "C01": P(
        "model_checking",
        "Part A: BFS over orders of public Packet/Header mutator calls, dedup on the full observable state; every transition is "
        "a real API call compared with the API model, and in every visited state the wire image / decode-back / limited encoder "
        "are compared with the RFC 7252 reference codec. Part B: complete boundary products (option number, value length, pairs, "
        "triples, header fields). A case is distinct+non-trivial per (outcome class x encoding band of every delta and length x "
        "payload/token/version/type shape); for part A: distinct canonical states.",
        ["oc", "rel"], ["oc", "rel", "nostd", "udp"],
    ),
    "C02": P(
        "exploration",
        "Bounded-exhaustive byte-string generators G1 (all strings <= 2/3 bytes after each header prefix), G2 (every option header "
        "byte x every extended delta/length value), G3 (every prefix and single-byte substitution of a corpus); every accepted "
        "input is re-encoded without limit and compared byte for byte. distinct+non-trivial = distinct (outcome class x option "
        "count x token length x payload shape) buckets among accepted inputs.",
        ["oc", "rel", "dev0"], ["oc", "rel", "nostd", "dev0"],
    ),
    "C03": P(
        "exploration",
        "Same generators G1-G3; every input is parsed under panic capture and compared with the three-valued RFC 7252 reference "
        "parser (must-accept with fields / must-reject / either). distinct+non-trivial = distinct (verdict x reason or structural "
        "shape) buckets.",
        ["oc", "rel", "dev0"], ["oc", "rel", "nostd", "dev0"],
    ),
    "C04": P(
        "exploration",
        "Messages x limits: payload sweep 0..=1400, totals steered to MAX_SIZE-2..+2 via payload and via option value, option "
        "values at/after the 16-bit length limit, option pairs over extension thresholds; each message against limits "
        "{L-1,L,L+1,0,3,4,MAX-1,MAX,MAX+1,usize::MAX}, to_bytes, to_bytes_unlimited; same corpus under AddressSanitizer. "
        "distinct+non-trivial = distinct (relation to MAX_SIZE x token x option length bands x payload x empty-code x distance "
        "to MAX) buckets.",
        ["oc", "rel", "asan"], ["oc", "rel", "asan", "udp", "miri"],
    ),
    "C05": P(
        "exploration",
        "The whole finite number spaces: all 65536 option numbers, all 65536 content-format ids (+ 6 larger), 256 code bytes "
        "(class mapping, Display, set_code/get_code, wire byte, is_error), 4 types x 256 prior header bytes, 256 first header "
        "bytes, observe values; compared with hand-transcribed IANA/RFC tables (cross-checked against the coap-numbers crate on "
        "every run). distinct+non-trivial = distinct named registry entries / code bytes / header-field combinations confirmed.",
        ["oc"], ["oc", "nostd"],
    ),
    "C06": P(
        "exploration",
        "Every u8 and u16 at every width, every two-byte window of u64 at every byte position, powers of two and neighbours; "
        "decode of every byte string <= 2 (thorough 3) at all four widths and every string <= 10 over {00,01,FF}; text options: "
        "all symbol sequences <= 4 and every byte string <= 2/3 vs str::from_utf8; typed Packet accessors over all lists <= 3 of "
        "boundary values. distinct+non-trivial = distinct (width x encoded length x acceptance x leading-zero) buckets.",
        ["oc", "rel"], ["oc", "rel", "nostd"],
    ),
    "C07": P(
        "exploration",
        "The stated product in full: 4 types x 4 versions x token length 0..8 x all 65536 message ids, through CoapResponse::new "
        "and CoapRequest::from_packet, reply compared field by field and as wire image; apply_from_error over every response "
        "code/None x 4 messages x 6 prepared-response shapes x CON/NON. distinct+non-trivial = distinct (type x version x token "
        "length x body variant x mid boundary) and (code x shape x message) buckets.",
        ["oc"], ["oc", "nostd"],
    ),
    "C13": P(
        "exploration",
        "The whole space of the type: num 0..=65535 x more x szx 0..=7 encode/decode/size; decode of every byte string <= 3 "
        "bytes; BlockValue::new over num x size boundary products incl. every size 0..=8200 and powers of two to usize::MAX. "
        "distinct+non-trivial = distinct (encoded length x more x szx x num>=4096) / (decision x shape) buckets.",
        ["oc", "rel"], ["oc", "rel"],
    ),
    "C16": P(
        "exploration",
        "Writer -> parser identity: every value <= 4 (5) symbols over 13 structural / multi-byte symbols x {attr, attr_quoted} x 5 "
        "positions x newline option; all one-link documents with <= 2 (3) attributes over 26 attribute choices x 8 targets; all "
        "documents of <= 2 (3) links. distinct+non-trivial = distinct (document shape x per-value escaping features x newline) "
        "buckets.",
        ["oc"], ["oc", "nostd"],
    ),
    "C17": P(
        "exploration",
        "Every string <= 6 (8) over the property's 10-symbol alphabet through LinkFormatParser, every attribute iterator and "
        "both unquoting paths under panic capture and iteration caps; Unquote::new on every string <= 6 (8) over 6 symbols; every "
        "prefix of 260 writer-produced documents. distinct+non-trivial = distinct (links x attributes x quoted values x error) "
        "buckets.",
        ["oc"], ["oc", "nostd"],
    ),
    "C18": P(
        "fault_enumeration",
        "For each document x newline option: the fault-free run records the n sink calls; then every k < n x {fail call k only, "
        "fail k and all later} (thorough: every pair k1<k2) - complete per document; oracle: sink content == fault-free text of "
        "calls 0..k and final finish() is Err. distinct+non-trivial = distinct (fault mode x newline x fault position x document "
        "size) buckets.",
        ["oc"], ["oc", "nostd"],
    ),
    "C14": P(
        "model_checking",
        "Explicit-state BFS of the real Subject to a fixpoint (closed state space: histories of any length over the alphabet are "
        "covered) for limits 0,1,2 with 2 endpoints x 2 tokens x 2 paths (34 actions), plus 3 endpoints x 3 tokens on one path and 2 endpoints x 3 paths "
        "(thorough: 3 endpoints x 2 tokens x 2 paths at limits 0 and 1, up to 8.9 million states); "
        "every transition runs the real operation in lock-step with refmodel::subject and checks observer identity/order/tokens, "
        "one-observer-per-endpoint, frame conditions on all other paths and no entry creation by rounds. Plus histories without "
        "state merging (a setup, one action repeated 1..300 times, then every ordered pair of actions). The harness endpoint's "
        "Display is a per-request tag, not its identity. distinct non-trivial = distinct canonical states (per path ordered "
        "observers with endpoint, token, count, pending id).",
        ["oc"], ["oc", "rel"],
    ),
    "C15": P(
        "model_checking",
        "The same closed BFS with the accounting oracle (sequence +1 per round, count per CON round, eviction exactly when count > "
        "limit, ack by endpoint+latest id only), the same unmerged repeat-then-probe histories, plus 63 directed 600-round histories at limits {0,1,2,10,127,254,255} compared "
        "with the model after every operation, plus the create_notification product (token 0-8 x sequence byte boundaries x type "
        "x mid x payload) against the reference codec. distinct non-trivial = distinct canonical states.",
        ["oc", "rel"], ["oc", "rel"],
    ),
    "C19": P(
        "exploration",
        "Named values exhaustively (7 methods, 27 statuses, 60 content formats, observe actions; all 256 code bytes through both "
        "getters; all 65536 raw content-format ids; raw Observe values <= 6 bytes); every path string <= 8 (9) over {/ a . é} x 3 "
        "prior states; every setter/raw-add operation sequence of length <= 5 (6) over 20 operations (histories: set after set, "
        "set after raw add, after clear_all); coap-message 0.2 and 0.3 reader/writer/mutator views over every ordered selection of "
        "<= 4 of 7 options x payload x codes. Every history is executed on a fresh real object and all views are compared with the "
        "value of the last setter of each kind. distinct non-trivial = distinct (kind x shape) buckets.",
        ["oc"], ["oc", "nostd"],
    ),
    "C08": P(
        "model_checking",
        "Every case is a complete Block2 transfer through the real handler via encoded bytes (requests by the reference encoder, "
        "replies read by the reference parser): budget x body length x client strategy (no preference / early SZX / mid-transfer "
        "reductions = deviations) x application option set x start state (fresh, completed transfer, unfinished transfers on other keys, unfinished transfer on the key abandoned after block 0 or after one/two cached follow-ups). Family A: budgets overhead+28..+92 x every body length "
        "0..=98; family B: budgets +-2 around overhead+12+2^k, 1152, 1280 x boundary lengths x all strategies. Oracle on the "
        "client side: reassembly == body, block sizes/more flags/numbers vs offsets, option echo, application consulted once, "
        "cache released. states = distinct handler snapshots (hook) seen after an exchange, transitions = exchanges, each "
        "validated by the client-side oracle. distinct non-trivial = max(distinct snapshots, distinct case-shape buckets).",
        ["oc"], ["oc", "rel"],
    ),
    "C09": P(
        "model_checking",
        "Every case is a complete Block1 upload through the real handler via encoded bytes: SZX x body length (every length for "
        "SZX 0/1, boundary lengths for 2..6, 5000) x budget (admitting the block size) x per-block delivery counts 1..3 "
        "(deviations) x abandoned predecessor upload of 0..6 blocks. Oracle: 2.31 + Block1 echo for non-final blocks without "
        "reaching the application, final block hands over exactly the body once, 4.13 + size hint for oversize requests without "
        "Block1. states = distinct handler snapshots, transitions = exchanges.",
        ["oc"], ["oc", "rel"],
    ),
    "C10": P(
        "exploration",
        "Direct measurement: complete downloads and uploads through the real handler for budgets (every value overhead+28..+92, "
        "+-2 around overhead+12+2^k, 1152, 1280) x overhead shapes (token, path, extra options / application options) x client SZX "
        "(none, 0..7) x bodies relative to the room left, plus uploads whose requests change token and Uri-Query from block to block and after an abandoned upload on the key; every handler-produced reply is encoded and compared with the budget, "
        "the chosen SZX with 0..6 / the client's size / the exact-size rule, and the client's next upload block is encoded and "
        "measured. distinct+non-trivial = distinct (outcome x client SZX x body shape x overhead shape x log2(room)) buckets.",
        ["oc"], ["oc", "rel"],
    ),
    "C11": P(
        "model_checking",
        "Depth 1: the full product of 7680 hostile request templates x 122 budgets x 4 application replies; depth 2: every ordered "
        "pair of a covering template set x 67 budgets x 2 replies; depth 3 (5): BFS over 14 templates colliding on one cache key x 2 "
        "replies at budgets {21,32,64,1152}, dedup on the hook snapshot. Every exchange runs the real intercept_request / "
        "application / intercept_response / apply_from_error / encode path under panic capture; oracle: no panic, errors "
        "renderable as 4.xx/5.xx, own-buffer growth <= 16 KiB + payload, rejected blocks and other keys leave buffers unchanged. "
        "Plus histories without state merging (one request repeated 1..40 times, then every ordered pair of requests) and jumps "
        "after up to 33 in-order 1-2 KiB blocks each delivered 1..20 times. states = distinct handler snapshots, transitions = "
        "exchanges.",
        ["oc", "rel"], ["oc", "rel"],
    ),
    "C12": P(
        "model_checking",
        "Exhaustive enumeration of all merges (message-level interleavings at the serial handler) of 2-3 scripted block-wise "
        "transfers (4-exchange upload, 5-exchange download, 5-exchange upload-then-download) for every pair of script kinds x "
        "6 key-difference variants (endpoint, method PUT/POST/PATCH, GET/FETCH/DELETE, path segmentation [a,b] vs [a/b], path "
        "prefixes, other paths), and triples (34650 merges of 3 uploads; thorough: 756756 merges of 3x5). Every exchange runs "
        "through the real handler via encoded bytes; oracle: each transfer's transcript == its solo transcript, every reply "
        "echoes the id and token of its request. states = distinct handler snapshots, transitions = exchanges.",
        ["oc"], ["oc", "rel"],
    ),
    "C20": P(
        "model_checking",
        "Explicit-state BFS to a fixpoint over {next request of the transfer under test, requests on two other keys, clock ticks "
        "333/499/1001 ms} with expiry 1000 ms on the harness-owned clock (lru_time_cache's fake-clock seam) for a Block2 download "
        "and a Block1 upload; per transition: served-from-cache iff idle < expiry, fresh application call / no pre-expiry byte "
        "delivered iff idle > expiry, physical entries (live key instances) == entries within lifetime after every handler call. "
        "Plus linear retention histories (1..2000 intervening requests) and reclamation histories (1..50 abandoned 1 KiB "
        "uploads). Thorough adds the production-clock configuration: every sequence of 5 actions over {next, two other keys, "
        "pause 260 ms, pause 40 ms} at expiry 150 ms through the same step oracle (model time = measured time; steps whose idle times are "
        "not clearly < 0.4x or > 1.5x the expiry are discarded as inconclusive), retention and reclamation under the real clock. "
        "If advancing the harness-owned clock does not expire the handler's state (an implementation that reads another clock), "
        "those production-clock families (depth 4) replace the fake-clock ones as the deciding exploration. states = canonical "
        "(hook snapshot, capped idle times, model progress).",
        ["oc"], ["oc", "rel", "realclock"],
    ),
}


def log(msg):
    print(msg, file=sys.stderr, flush=True)


NOHOOKS = {}  # cfg -> True once the hooks turned out not to compile against the tree under test


def build_cmd(cfg, nohooks):
    c = CONFIGS[cfg]
    cmd = ["cargo"]
    if c.get("toolchain"):
        cmd.append(c["toolchain"])
    cmd += ["build", "-p", "coapmc", "--offline"] + c["args"]
    if nohooks:
        cmd += ["--features", "nohooks"]
    if "--target-dir" not in cmd:
        cmd += ["--target-dir", "target"]
    i = cmd.index("--target-dir")
    cmd[i + 1] = cmd[i + 1] + (MUT if REPO_OVERRIDE else "") + ("-nohooks" if nohooks else "")
    if REPO_OVERRIDE:
        cmd += ["--config", f'paths=["{REPO_OVERRIDE}"]']
    env = dict(ENV)
    env.update(c.get("env", {}))
    if nohooks:
        # an explicit RUSTFLAGS replaces the --cfg coap_lite_verif of mc/.cargo/config.toml
        env["RUSTFLAGS"] = (env.get("RUSTFLAGS", "").replace("--cfg coap_lite_verif", "") + " --cfg coap_lite_verif_hooks_off").strip()
    binp = c["bin"]
    first, rest = binp.split("/", 1)
    binp = first + (MUT if REPO_OVERRIDE else "") + ("-nohooks" if nohooks else "") + "/" + rest
    return cmd, env, os.path.join(MC, binp)


def build(cfg):
    c = CONFIGS[cfg]
    if c.get("miri"):
        return None  # built and run in one step by `cargo miri run`
    t0 = time.time()
    cmd, env, binp = build_cmd(cfg, False)
    if os.environ.get("VERIF_FORCE_NOHOOKS"):  # self-test of the hook-less form on a tree where the hooks do compile
        r = subprocess.CompletedProcess(cmd, 1, "(VERIF_FORCE_NOHOOKS set)", None)
    else:
        r = subprocess.run(cmd, cwd=MC, env=env, stdout=subprocess.PIPE, stderr=subprocess.STDOUT, text=True)
    if r.returncode != 0:
        # Do the hooks (cfg coap_lite_verif) still compile against this tree? If the crate builds without them, run
        # the checks in their hook-less form rather than not at all (DESIGN.md 6.2).
        cmd2, env2, binp2 = build_cmd(cfg, True)
        r2 = subprocess.run(cmd2, cwd=MC, env=env2, stdout=subprocess.PIPE, stderr=subprocess.STDOUT, text=True)
        if r2.returncode != 0:
            log(r.stdout[-6000:])
            log(f"MACHINERY: build of configuration {cfg} failed")
            sys.exit(2)
        log(r.stdout[-1500:])
        log(f"NOTE: the verification hooks do not compile against this tree; configuration {cfg} was built WITHOUT hooks "
            f"(degraded checks, see the evidence file) in {time.time() - t0:.1f}s")
        NOHOOKS[cfg] = True
        return binp2
    log(f"[build {cfg}] ok in {time.time() - t0:.1f}s")
    return binp


def known_findings():
    out = []
    if os.path.exists(KNOWN):
        for line in open(KNOWN):
            line = line.strip()
            if line and not line.startswith("#"):
                out.append(json.loads(line))
    return out


def run_config(pid, cfg, tier, seed, extra=None):
    exe = build(cfg)
    os.makedirs(PARTS, exist_ok=True)
    part = os.path.join(PARTS, f"{pid}-{cfg}.json")
    if os.path.exists(part):
        os.remove(part)
    cmd = [exe, pid, "--tier", tier, "--seed", str(seed), "--config", cfg, "--out", part]
    ksigs = [k["signature"] for k in known_findings() if k.get("property") == pid and k.get("status") == "known"]
    if ksigs:
        cmd += ["--known", ",".join(ksigs)]
    env = dict(ENV)
    if CONFIGS[cfg].get("miri"):
        cmd = ["cargo", "+nightly", "miri", "run", "-q", "-p", "coapmc", "--offline", "--target-dir",
               "target-miri" + MUT + ("-nohooks" if NOHOOKS else "")]
        if NOHOOKS:  # an earlier configuration found that the hooks do not compile against this tree
            cmd += ["--features", "nohooks"]
            env["RUSTFLAGS"] = "--cfg coap_lite_verif_hooks_off"
        if REPO_OVERRIDE:
            cmd += ["--config", f'paths=["{REPO_OVERRIDE}"]']
        cmd += ["--", pid, "--tier", tier, "--seed", str(seed), "--config", cfg, "--out", part, "--threads", "1"]
        if ksigs:
            cmd += ["--known", ",".join(ksigs)]
        env["MIRIFLAGS"] = "-Zmiri-disable-isolation -Zmiri-ignore-leaks"
    if extra:
        cmd += extra
    env.update(CONFIGS[cfg].get("env_run", {}))
    if cfg == "asan":
        env["ASAN_OPTIONS"] = "detect_leaks=0:abort_on_error=0:exitcode=66:allocator_may_return_null=1"
    t0 = time.time()
    r = subprocess.run(cmd, cwd=MC, env=env, stdout=subprocess.PIPE, stderr=subprocess.PIPE, text=True, errors="replace")
    wall = time.time() - t0
    sys.stderr.write(r.stderr[-4000:] if extra else "")
    res = dict(config=cfg, wall=wall, returncode=r.returncode, stderr=r.stderr, part=None, synthetic=[])
    if r.returncode == 0 and os.path.exists(part):
        res["part"] = json.load(open(part))
        return res
    if r.returncode == 3 and os.path.exists(part):
        j = json.load(open(part))
        res["synthetic"].append(dict(
            signature=f"{pid}/non-termination", what=f"a subject call made no progress for 20 s in {j.get('stalled_case')}",
            family=str(j.get("stalled_case", "?")).split(":")[0], index=None, history=None,
            case=dict(stalled_case=j.get("stalled_case")), config=cfg))
        return res
    if "has overflowed its stack" in r.stderr:
        case = next((l[len("CASE "):].strip() for l in reversed(r.stderr.splitlines()) if l.startswith("CASE ")), None)
        fam, idx = (case.rsplit(":", 1) + [None])[:2] if case else ("?", None)
        res["synthetic"].append(dict(
            signature=f"{pid}/stack-overflow", what=f"the process overflowed its stack while executing case {case} (configuration {cfg})",
            family=fam, index=int(idx) if idx and idx.isdigit() else None, history=None,
            case=dict(stderr_tail=r.stderr[-600:]), config=cfg))
        return res
    if "NON-UNWINDING-PANIC" in r.stderr:
        msg = next((l for l in r.stderr.splitlines() if l.startswith("NON-UNWINDING-PANIC")), "")[len("NON-UNWINDING-PANIC "):]
        case = next((l[len("ABORT-CASE "):].strip() for l in r.stderr.splitlines() if l.startswith("ABORT-CASE ")), None)
        fam, idx = (case.rsplit(":", 1) + [None])[:2] if case else ("?", None)
        kind = "unsafe-precondition-violated" if "unsafe precondition" in msg else "non-unwinding-panic"
        res["synthetic"].append(dict(
            signature=f"{pid}/{kind}", what=f"the process aborted while executing case {case}: {msg[:300]}",
            family=fam, index=int(idx) if idx and idx.isdigit() else None, history=None,
            case=dict(abort_message=msg[:1000], stderr_tail=r.stderr[-1500:]), config=cfg))
        return res
    if CONFIGS[cfg].get("miri") and "Undefined Behavior" in r.stderr:
        ub = next((l for l in r.stderr.splitlines() if "Undefined Behavior" in l), "Undefined Behavior")
        res["synthetic"].append(dict(
            signature=f"{pid}/miri/undefined-behavior", what=f"Miri: {ub.strip()}", family="miri-boundary-slice", index=None,
            history=None, case=dict(miri_report=r.stderr[-3000:]), config=cfg))
        return res
    if cfg == "asan" and ("AddressSanitizer" in r.stderr or r.returncode == 66):
        case = None
        for line in r.stderr.splitlines():
            if line.startswith("ASAN-CASE "):
                case = line[len("ASAN-CASE "):].strip()
        kind = "unknown"
        for line in r.stderr.splitlines():
            if "ERROR: AddressSanitizer:" in line:
                kind = line.split("ERROR: AddressSanitizer:")[1].strip().split(" ")[0]
                break
        fam, idx = (case.rsplit(":", 1) + [None])[:2] if case else ("?", None)
        res["synthetic"].append(dict(
            signature=f"{pid}/asan/{kind}", what=f"AddressSanitizer reported {kind} while executing case {case}",
            family=fam, index=int(idx) if idx and idx.isdigit() else None, history=None,
            case=dict(asan_report=r.stderr[-3000:]), config=cfg))
        return res
    if r.returncode < 0 and cfg != "asan" and not extra:
        # The engine died from a signal (heap corruption, segmentation fault, ...). That can be the harness, or
        # memory corruption caused by the subject's unsafe code. Attribute it by running the same property under
        # AddressSanitizer: a sanitizer report is a verdict, anything else stays a machinery failure.
        log(r.stderr[-1500:])
        log(f"engine for {pid} in configuration {cfg} died with signal {-r.returncode}; re-running under AddressSanitizer to attribute it")
        res2 = run_config(pid, "asan", tier, seed)
        if res2["synthetic"]:
            for v in res2["synthetic"]:
                v["what"] += f" (the {cfg} build died with signal {-r.returncode})"
            res["synthetic"] = res2["synthetic"]
            return res
        log(f"MACHINERY: engine for {pid} in configuration {cfg} died with signal {-r.returncode} and AddressSanitizer found nothing")
        sys.exit(2)
    log(r.stderr[-6000:])
    log(f"MACHINERY: engine for {pid} in configuration {cfg} exited with {r.returncode}")
    sys.exit(2)


def validate(evidence, fatal=True):
    try:
        r = subprocess.run(
            ["python3-vt", "-c",
             "import json,sys,jsonschema; jsonschema.validate(json.load(open(sys.argv[1])), json.load(open(sys.argv[2])))",
             evidence, SCHEMA],
            stdout=subprocess.PIPE, stderr=subprocess.STDOUT, text=True)
        if r.returncode != 0:
            log(r.stdout[-3000:])
            if fatal:
                log("MACHINERY: evidence file does not validate against the schema")
                sys.exit(2)
            log("note: the evidence file of this aborted run does not validate (engines died before covering anything); "
                "the violation verdict stands")
    except FileNotFoundError:
        log("note: python3-vt not found, evidence not schema-validated")


def cross_engine_guard(families, notes):
    """Second, independent enumerator (stateright, BFS then DFS) over the Observe reference model: its unique state
    count must equal the number of canonical states the real-code search visited. Mismatch = machinery failure."""
    r = subprocess.run(["cargo", "build", "-p", "xcheck", "--offline", "--profile", "oc"], cwd=MC, env=ENV,
                       stdout=subprocess.PIPE, stderr=subprocess.STDOUT, text=True)
    if r.returncode != 0:
        log(r.stdout[-3000:])
        log("MACHINERY: xcheck build failed")
        sys.exit(2)
    out = []
    seen = set()
    for f in families:
        m = re.match(r"bfs-limit(\d+)(-3endpoints-3tokens-1path|-2endpoints-1token-3paths)?$", f["name"])
        if not m or f["name"] in seen or f.get("config") != "oc":
            continue
        seen.add(f["name"])
        mode = {None: "0", "-3endpoints-3tokens-1path": "1", "-2endpoints-1token-3paths": "2"}[m.group(2)]
        r = subprocess.run([os.path.join(MC, "target/oc/xcheck"), m.group(1), mode],
                           stdout=subprocess.PIPE, stderr=subprocess.PIPE, text=True)
        j = json.loads(r.stdout.strip().splitlines()[-1])
        # the model drops observer-less entries from its canonical state; the real-code search counts that
        # projection separately (its own deduplication key keeps them)
        projected = notes.get(f"oc:{f['name']}_projected_states")
        j["real_code_states"] = f["states"]
        j["real_code_projected_states"] = projected
        j["family"] = f["name"]
        out.append(j)
        if not (j["bfs_unique_states"] == j["dfs_unique_states"] and j["properties_hold"]):
            # the two stateright searches of the *model* disagree with each other: the machinery itself is broken
            log(f"MACHINERY: stateright BFS and DFS disagree for {f['name']}: {j}")
            sys.exit(2)
        j["agreement"] = j["bfs_unique_states"] == projected
        if not j["agreement"]:
            # the real-code search saw a different number of canonical states than the model has: either violations cut
            # the exploration (they are reported below) or the implementation keeps hidden state the model does not
            # distinguish (e.g. a stale pending id after an acknowledgement), which no property forbids. Recorded in
            # the evidence, never a verdict and never a reason to stop.
            log(f"NOTE: cross-engine state counts differ for {f['name']}: real code {projected}, model {j['bfs_unique_states']}")
    return out


def check(pid, tier):
    if pid not in PROPS:
        log(f"unknown or unclaimed property {pid}")
        sys.exit(2)
    prop = PROPS[pid]
    seed = int(os.environ.get("VERIF_SEED", "0") or 0)
    t0 = time.time()
    results = [run_config(pid, cfg, tier, seed) for cfg in prop[tier]]
    # ---- merge
    cov = dict(evaluations=0, states=0, transitions=0, traces_validated_against_impl=0)
    distinct = 0
    samples, families, hist, per_config, notes, assumptions = [], [], {}, [], {}, []
    violations = []
    total_violation_count = 0
    for res in results:
        for v in res["synthetic"]:
            violations.append(v)
            total_violation_count += 1
        part = res["part"]
        if part is None:
            per_config.append(dict(config=res["config"], wall_s=round(res["wall"], 2), aborted=True))
            continue
        rep = part["report"]
        for k in ("evaluations", "states", "transitions", "traces_validated_against_impl"):
            cov[k] += rep[k]
        distinct = max(distinct, rep["distinct_buckets"])
        if len(samples) < 12:
            samples += rep["samples"][: max(2, 12 // len(results))]
        for f in rep["families"]:
            f = dict(f)
            f["config"] = res["config"]
            families.append(f)
        for k, v in rep["histogram"].items():
            hist[f"{res['config']}:{k}"] = v
        for k, v in rep["notes"].items():
            notes[f"{res['config']}:{k}"] = v
        for a in rep["assumptions"]:
            if a not in assumptions:
                assumptions.append(a)
        total_violation_count += rep["violation_count"]
        for v in rep["violations"]:
            v = dict(v)
            v["config"] = res["config"]
            violations.append(v)
        per_config.append(dict(
            config=res["config"], wall_s=round(res["wall"], 2), evaluations=rep["evaluations"], states=rep["states"],
            transitions=rep["transitions"], distinct_buckets=rep["distinct_buckets"], violations=rep["violation_count"],
            signature_counts=rep["signature_counts"]))
    # ---- cross-engine guard (thorough, C14/C15): stateright enumerates the reference model; counts must agree
    if tier == "thorough" and pid in ("C14", "C15"):
        xc = cross_engine_guard(families, notes)
        notes["cross_engine_stateright"] = xc
    # for state-space checks the distinct non-trivial cases are the distinct canonical states (max over configs)
    max_states = max([pc.get("states", 0) for pc in per_config] + [0])
    distinct = max(distinct, max_states)
    # ---- classify violations
    known = [k for k in known_findings() if k.get("property") == pid and k.get("status") == "known"]
    os.makedirs(REPLAYS, exist_ok=True)
    for f in os.listdir(REPLAYS):
        if f.startswith(pid + "-"):
            os.remove(os.path.join(REPLAYS, f))
    new_lines, known_lines, seen_sigs = [], [], {}
    n = 0
    for v in violations:
        sig = v["signature"]
        match = next((k for k in known if k["signature"] == sig), None)
        if match is not None:
            line = f"KNOWN-FINDING: property={pid} {match.get('what', sig)} [{sig}]"
            if line not in known_lines:
                known_lines.append(line)
            continue
        seen_sigs[sig] = seen_sigs.get(sig, 0) + 1
        if seen_sigs[sig] > 2 or n >= 40:
            continue
        n += 1
        path = os.path.join(REPLAYS, f"{pid}-{n}.json")
        rp = dict(property_id=pid, config=v["config"], tier=tier, seed=seed, family=v["family"], index=v.get("index"),
                  history=v.get("history"), signature=sig, what=v["what"], case=v["case"],
                  replay_cmd=f"./run.sh {pid} --replay {path}")
        json.dump(rp, open(path, "w"), indent=1)
        new_lines.append(f"VIOLATION property={pid} replay={path}")
        log(f"  {sig}: {v['what']}")
    unlisted = sum(1 for v in violations if not any(k["signature"] == v["signature"] for k in known))
    wall = time.time() - t0
    evidence = dict(
        property_id=pid, tier=tier, seed=seed, level=prop["level"],
        coverage=dict(
            evaluations=cov["evaluations"], distinct_nontrivial=distinct, rule=prop["rule"], samples=samples[:12],
            exhaustive=bool(prop["exhaustive"] and all(f.get("exhaustive", False) for f in families)),
            configurations=per_config, families=families, outcome_histogram=hist, notes=notes,
            violating_cases_total=total_violation_count,
        ),
        assumptions=assumptions, wall_s=round(wall, 2), violations=unlisted,
    )
    if prop["level"] == "model_checking":
        # states: distinct canonical states of the largest single configuration (the configurations explore the same
        # space on differently built code); transitions: executions summed over all configurations
        evidence["coverage"].update(states=max_states, states_summed_over_configurations=cov["states"], transitions=cov["transitions"],
                                    traces_validated_against_impl=cov["traces_validated_against_impl"])
    os.makedirs(EVID, exist_ok=True)
    path = os.path.join(EVID, f"{pid}.json")
    if not evidence["coverage"]["samples"]:
        # every engine died before sampling anything: the cases that killed them are the samples
        evidence["coverage"]["samples"] = [dict(config=v["config"], family=v["family"], index=v.get("index"), what=v["what"][:300])
                                           for v in violations[:4]]
    json.dump(evidence, open(path, "w"), indent=1)
    validate(path, fatal=(unlisted == 0))
    for l in known_lines:
        print(l)
    for l in new_lines:
        print(l)
    print(f"{pid} {tier}: evaluations={cov['evaluations']} states={cov['states']} transitions={cov['transitions']} "
          f"distinct={distinct} violations={unlisted} known={len(known_lines)} wall={wall:.1f}s")
    sys.stdout.flush()
    sys.exit(1 if unlisted else 0)


def replay(pid, path):
    rp = json.load(open(path))
    cfg = rp["config"]
    extra = ["--verbose"]
    if rp.get("history") is not None:
        extra += ["--history", f"{rp['family']}:{','.join(str(x) for x in rp['history'])}"]
    elif rp.get("index") is not None:
        extra += ["--only", f"{rp['family']}:{rp['index']}"]
    else:
        log("this replay file has neither an index nor a history (process-level finding); see its case field")
        print(json.dumps(rp["case"], indent=1)[:4000])
        sys.exit(2)
    print(f"replaying {rp['signature']} in configuration {cfg}: {rp['what']}")
    print("case:", json.dumps(rp["case"])[:3000])
    res = run_config(pid, cfg, rp.get("tier", "quick"), rp.get("seed", 0), extra)
    viols = list(res["synthetic"])
    if res["part"]:
        viols += res["part"]["report"]["violations"]
    if viols:
        for v in viols:
            print(f"REPRODUCED {v['signature']}: {v['what']}")
        sys.exit(1)
    print("not reproduced: the case passes on the current tree")
    sys.exit(0)


def selfcheck():
    """Unit tests of the explorer core and of the reference models (toy state space with a known size, bijective
    index decoding, RFC examples, registry table sanity)."""
    r = subprocess.run(["cargo", "test", "--offline", "-p", "mccore", "-p", "refmodel"], cwd=MC, env=ENV,
                       stdout=subprocess.PIPE, stderr=subprocess.STDOUT, text=True)
    ok = r.returncode == 0
    log(f"[selfcheck] explorer + reference model unit tests: {'ok' if ok else 'FAILED'}")
    if not ok:
        log(r.stdout[-3000:])
        sys.exit(2)


def setup():
    selfcheck()
    for cfg in CONFIGS:
        build(cfg)
    subprocess.run(["cargo", "build", "-p", "xcheck", "--offline", "--profile", "oc"], cwd=MC, env=ENV)
    # Miri: build its sysroot and the interpreted binary once (offline)
    r = subprocess.run(["cargo", "+nightly", "miri", "run", "-q", "-p", "coapmc", "--offline", "--target-dir", "target-miri", "--",
                        "C04", "--config", "miri", "--threads", "1", "--out", "/dev/null"], cwd=MC,
                       env=dict(ENV, MIRIFLAGS="-Zmiri-disable-isolation -Zmiri-ignore-leaks"), stdout=subprocess.PIPE, stderr=subprocess.STDOUT, text=True)
    log(f"[miri warm-up] exit {r.returncode}")
    print("setup ok")


def baseline_off():
    env = dict(ENV)
    env.pop("RUSTFLAGS", None)
    r = subprocess.run(["cargo", "test", "--workspace", "--no-fail-fast", "--offline"], cwd="/repo", env=env)
    sys.exit(r.returncode)


def not_applicable():
    out = []
    for line in open(os.path.join(VERIF, "properties.jsonl")):
        pid = json.loads(line)["id"]
        if pid not in PROPS:
            out.append(dict(property_id=pid, reason="check under construction in this session; not claimed until it runs"))
    return out


def manifest():
    checks = []
    for pid in sorted(PROPS):
        p = PROPS[pid]
        checks.append(dict(
            property_id=pid,
            quick_cmd=f"./run.sh {pid} quick",
            thorough_cmd=f"./run.sh {pid} thorough",
            evidence_file=f"/verif/evidence/{pid}.json",
            replay_cmd_template=f"./run.sh {pid} --replay {{path}}",
            engine="coapmc",
            level_claimed=dict(category=p["level"], text=p["text"] or p["rule"], design_ref=f"DESIGN.md section 3, {pid}"),
            level_note=p["note"] or "Trusted base: the reference models in mc/refmodel (written from the RFC texts), the "
            "hand-written explorer in mc/core, rustc. Bounds as stated in the evidence file.",
            technique=p["technique"] or "bounded-exhaustive model checking of the real code against a reference model",
        ))
    m = dict(
        version=1,
        setup_cmd="./run.sh setup",
        hooks=dict(
            guard="coap_lite_verif",
            enable="RUSTFLAGS='--cfg coap_lite_verif' (set in /verif/mc/.cargo/config.toml; the harness depends on /repo by path, "
                   "so every build recompiles /repo's working tree)",
            baseline_off_cmd="./run.sh baseline-off",
            source_commits=HOOK_COMMITS,
            add_only=True,
        ),
        engines=[dict(
            name="coapmc", path="/verif/mc", serves_properties=sorted(PROPS),
            kind_free_text="hand-written deterministic explorer (mc/core): random-access bounded-exhaustive input families, "
                           "explicit-state BFS over real objects with replay-from-history and 128-bit state fingerprints, "
                           "deviation/fault enumeration; reference models in mc/refmodel; one binary per build configuration")],
        checks=checks,
        notes="All checks run the real crate from /repo's working tree. Known findings: /verif/known_findings.jsonl. "
              "Detection demonstration: /verif/mutants and /verif/seeded.",
        not_applicable=not_applicable(),
    )
    json.dump(m, open(os.path.join(VERIF, "MANIFEST.json"), "w"), indent=1)
    print("MANIFEST.json written with", len(checks), "checks")


HOOK_COMMITS = ["1864720"]


def main():
    a = sys.argv[1:]
    if not a:
        print(__doc__)
        sys.exit(2)
    if a[0] == "setup":
        return setup()
    if a[0] == "baseline-off":
        return baseline_off()
    if a[0] == "manifest":
        return manifest()
    if a[0] == "selfcheck":
        return selfcheck()
    pid = a[0]
    if len(a) >= 3 and a[1] == "--replay":
        return replay(pid, a[2])
    tier = a[1] if len(a) > 1 else os.environ.get("VERIF_TIER", "quick")
    if tier not in ("quick", "thorough"):
        tier = "quick"
    check(pid, tier)


if __name__ == "__main__":
    main()
