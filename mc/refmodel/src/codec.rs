//! RFC 7252 section 3 message format: reference encoder and three-valued
//! reference parser.  Written from the RFC text; shares no code with the crate
//! under test.
//!
//! ```text
//!  0                   1                   2                   3
//!  0 1 2 3 4 5 6 7 8 9 0 1 2 3 4 5 6 7 8 9 0 1 2 3 4 5 6 7 8 9 0 1
//! |Ver| T |  TKL  |      Code     |          Message ID           |
//! |   Token (if any, TKL bytes) ...
//! |   Options (if any) ...
//! |1 1 1 1 1 1 1 1|    Payload (if any) ...
//! ```
//! Option: 4-bit delta, 4-bit length; each 0..12 literal, 13 → one extension
//! byte holding value-13, 14 → two extension bytes (network order) holding
//! value-269, 15 → reserved (only legal in the 0xFF payload marker).

/// A message at the level of the wire grammar.
#[derive(Clone, Debug, PartialEq, Eq, Hash, Default)]
pub struct RefMsg {
    pub version: u8,
    /// 0 CON, 1 NON, 2 ACK, 3 RST
    pub mtype: u8,
    pub token: Vec<u8>,
    pub code: u8,
    pub mid: u16,
    /// (option number, value) in wire order: ascending number, insertion order
    /// within a number.
    pub options: Vec<(u32, Vec<u8>)>,
    pub payload: Vec<u8>,
}

#[derive(Clone, Debug, PartialEq, Eq)]
pub enum EncError {
    /// An option value is longer than 65535 + 269 bytes.
    ValueTooLong,
    /// An option number above 65535, or numbers not ascending.
    BadOptionNumber,
    /// Token longer than 8 bytes.
    BadToken,
}

/// Largest option value length (and delta) the two-byte extension can express.
pub const MAX_EXT: usize = 65535 + 269;

fn nibble_and_ext(v: usize) -> Result<(u8, Vec<u8>), EncError> {
    // Range table, RFC 7252 section 3.1
    if v <= 12 {
        Ok((v as u8, vec![]))
    } else if v <= 268 {
        Ok((13, vec![(v - 13) as u8]))
    } else if v <= MAX_EXT {
        let e = (v - 269) as u16;
        Ok((14, e.to_be_bytes().to_vec()))
    } else {
        Err(EncError::ValueTooLong)
    }
}

/// Size of one encoded option given its delta and value length.
pub fn option_size(delta: usize, len: usize) -> usize {
    let ext = |v: usize| if v <= 12 { 0 } else if v <= 268 { 1 } else { 2 };
    1 + ext(delta) + ext(len) + len
}

/// Whether the crate (as the properties permit) puts the payload on the wire:
/// a 0.00 Empty message never carries one, an empty payload has no marker.
pub fn payload_is_sent(m: &RefMsg) -> bool {
    m.code != 0 && !m.payload.is_empty()
}

/// The RFC 7252 section 3 wire image of `m`.
pub fn enc(m: &RefMsg) -> Result<Vec<u8>, EncError> {
    if m.token.len() > 8 {
        return Err(EncError::BadToken);
    }
    let mut out = Vec::new();
    out.push(((m.version & 3) << 6) | ((m.mtype & 3) << 4) | (m.token.len() as u8));
    out.push(m.code);
    out.extend_from_slice(&m.mid.to_be_bytes());
    out.extend_from_slice(&m.token);
    let mut prev: u32 = 0;
    for (num, val) in &m.options {
        if *num > 65535 || *num < prev {
            return Err(EncError::BadOptionNumber);
        }
        let delta = (*num - prev) as usize;
        let (dn, dext) = nibble_and_ext(delta).map_err(|_| EncError::BadOptionNumber)?;
        let (ln, lext) = nibble_and_ext(val.len())?;
        out.push((dn << 4) | ln);
        out.extend_from_slice(&dext);
        out.extend_from_slice(&lext);
        out.extend_from_slice(val);
        prev = *num;
    }
    if payload_is_sent(m) {
        out.push(0xFF);
        out.extend_from_slice(&m.payload);
    }
    Ok(out)
}

/// Verdict of the reference parser.
#[derive(Clone, Debug, PartialEq, Eq)]
pub enum Verdict {
    /// Well formed under section 3 with version 1: must be accepted with exactly these fields.
    MustAccept(RefMsg),
    /// Malformed in one of the ways the property lists: must be rejected.
    MustReject(&'static str),
    /// The RFC allows (or requires) rejection but today's lenient acceptance is
    /// also fine: only "no crash" is demanded.  Carries what a lenient parser
    /// would extract, and the reason.
    Either(RefMsg, &'static str),
}

pub fn parse(b: &[u8]) -> Verdict {
    if b.len() < 4 {
        return Verdict::MustReject("shorter than four bytes");
    }
    let version = b[0] >> 6;
    let mtype = (b[0] >> 4) & 3;
    let tkl = (b[0] & 0x0F) as usize;
    let code = b[1];
    let mid = u16::from_be_bytes([b[2], b[3]]);
    if tkl > 8 {
        return Verdict::MustReject("token length 9-15");
    }
    if b.len() < 4 + tkl {
        return Verdict::MustReject("truncated token");
    }
    let token = b[4..4 + tkl].to_vec();
    let mut pos = 4 + tkl;
    let mut options: Vec<(u32, Vec<u8>)> = Vec::new();
    let mut number: u64 = 0;
    let mut payload = Vec::new();
    let mut lenient: Option<&'static str> = None;
    while pos < b.len() {
        let byte = b[pos];
        if byte == 0xFF {
            payload = b[pos + 1..].to_vec();
            if payload.is_empty() {
                lenient = Some("payload marker followed by nothing");
            }
            break;
        }
        pos += 1;
        let dn = (byte >> 4) as u64;
        let ln = (byte & 0x0F) as usize;
        if dn == 15 {
            return Verdict::MustReject("delta nibble 15 outside the payload marker");
        }
        // RFC order: extended delta first, then extended length.
        let delta = match dn {
            13 => {
                if pos >= b.len() {
                    return Verdict::MustReject("truncated extended delta");
                }
                let v = b[pos] as u64 + 13;
                pos += 1;
                v
            }
            14 => {
                if pos + 2 > b.len() {
                    return Verdict::MustReject("truncated extended delta");
                }
                let v = u16::from_be_bytes([b[pos], b[pos + 1]]) as u64 + 269;
                pos += 2;
                v
            }
            d => d,
        };
        if ln == 15 {
            return Verdict::MustReject("length nibble 15 outside the payload marker");
        }
        let len = match ln {
            13 => {
                if pos >= b.len() {
                    return Verdict::MustReject("truncated extended length");
                }
                let v = b[pos] as usize + 13;
                pos += 1;
                v
            }
            14 => {
                if pos + 2 > b.len() {
                    return Verdict::MustReject("truncated extended length");
                }
                let v = u16::from_be_bytes([b[pos], b[pos + 1]]) as usize + 269;
                pos += 2;
                v
            }
            l => l,
        };
        number += delta;
        if number > 65535 {
            return Verdict::MustReject("cumulative option number exceeds 65535");
        }
        if pos + len > b.len() {
            return Verdict::MustReject("truncated option value");
        }
        options.push((number as u32, b[pos..pos + len].to_vec()));
        pos += len;
    }
    let msg = RefMsg { version, mtype, token, code, mid, options, payload };
    if version != 1 {
        return Verdict::Either(msg, "version is not 1");
    }
    if code == 0 && b.len() > 4 {
        return Verdict::Either(msg, "0.00 Empty message with content after the message id");
    }
    if let Some(why) = lenient {
        return Verdict::Either(msg, why);
    }
    Verdict::MustAccept(msg)
}

#[cfg(test)]
mod tests {
    use super::*;

    #[test]
    fn rfc_examples() {
        // RFC 7252 lib.rs doc example bytes of the crate are standard: CON GET mid 0x5d1f token 00003974 Uri-Host localhost Uri-Path tv1
        let m = RefMsg {
            version: 1,
            mtype: 0,
            token: vec![0, 0, 0x39, 0x74],
            code: 1,
            mid: 0x5d1f,
            options: vec![(3, b"localhost".to_vec()), (11, b"tv1".to_vec())],
            payload: vec![],
        };
        let b = enc(&m).unwrap();
        assert_eq!(
            b,
            vec![
                0x44, 0x01, 0x5D, 0x1F, 0x00, 0x00, 0x39, 0x74, 0x39, 0x6C, 0x6F, 0x63, 0x61, 0x6C, 0x68, 0x6F, 0x73,
                0x74, 0x83, 0x74, 0x76, 0x31
            ]
        );
        assert_eq!(parse(&b), Verdict::MustAccept(m));
    }

    #[test]
    fn thresholds() {
        for (delta, len) in [(12usize, 12usize), (13, 13), (268, 268), (269, 269), (65535, 65804)] {
            let m = RefMsg {
                version: 1,
                code: 1,
                options: vec![(delta as u32, vec![0xAB; len])],
                ..Default::default()
            };
            let b = enc(&m).unwrap();
            assert_eq!(b.len(), 4 + option_size(delta, len));
            assert_eq!(parse(&b), Verdict::MustAccept(m));
        }
        let m = RefMsg { version: 1, code: 1, options: vec![(1, vec![0; 65805])], ..Default::default() };
        assert_eq!(enc(&m), Err(EncError::ValueTooLong));
    }

    #[test]
    fn rejects() {
        assert!(matches!(parse(&[0x40, 1, 0]), Verdict::MustReject(_)));
        assert!(matches!(parse(&[0x49, 1, 0, 0, 1, 2, 3, 4, 5, 6, 7, 8, 9]), Verdict::MustReject(_)));
        assert!(matches!(parse(&[0x42, 1, 0, 0, 1]), Verdict::MustReject(_)));
        assert!(matches!(parse(&[0x40, 1, 0, 0, 0xF0]), Verdict::MustReject(_)));
        assert!(matches!(parse(&[0x40, 1, 0, 0, 0x0F]), Verdict::MustReject(_)));
        assert!(matches!(parse(&[0x40, 1, 0, 0, 0xD0]), Verdict::MustReject(_)));
        assert!(matches!(parse(&[0x40, 1, 0, 0, 0xE0, 0]), Verdict::MustReject(_)));
        assert!(matches!(parse(&[0x40, 1, 0, 0, 0x01]), Verdict::MustReject(_)));
        assert!(matches!(parse(&[0x40, 1, 0, 0, 0xE0, 0xFE, 0xF2, 0xE0, 0, 0]), Verdict::MustReject(_)));
        assert!(matches!(parse(&[0x40, 1, 0, 0, 0xE0, 0xFE, 0xF2]), Verdict::MustAccept(_)));
        assert!(matches!(parse(&[0x40, 1, 0, 0, 0xFF]), Verdict::Either(..)));
        assert!(matches!(parse(&[0x00, 1, 0, 0]), Verdict::Either(..)));
        assert!(matches!(parse(&[0x40, 0, 0, 0, 0xFF, 1]), Verdict::Either(..)));
        assert!(matches!(parse(&[0x40, 0, 0, 0]), Verdict::MustAccept(_)));
    }
}
