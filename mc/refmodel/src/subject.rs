//! Observe registry (RFC 7641 server side) as the properties C14/C15 state it:
//! path -> (sequence, ordered observers); one observer per endpoint per path.

use std::collections::BTreeMap;

#[derive(Clone, Debug, PartialEq, Eq, Hash)]
pub struct RefObserver {
    pub endpoint: u32,
    pub token: Vec<u8>,
    /// confirmable notifications since the last acknowledgement or registration
    pub unacked: u64,
    /// message id of the most recent notification, until acknowledged
    pub pending: Option<u16>,
}

#[derive(Clone, Debug, PartialEq, Eq, Hash, Default)]
pub struct RefResource {
    pub sequence: u64,
    pub observers: Vec<RefObserver>,
}

#[derive(Clone, Debug, PartialEq, Eq, Hash)]
pub struct RefSubject {
    pub resources: BTreeMap<String, RefResource>,
    pub limit: u64,
}

impl RefSubject {
    pub fn new(limit: u64) -> Self {
        RefSubject { resources: BTreeMap::new(), limit }
    }

    pub fn register(&mut self, endpoint: u32, token: &[u8], path: &str) {
        let r = self.resources.entry(path.to_string()).or_default();
        let fresh = RefObserver { endpoint, token: token.to_vec(), unacked: 0, pending: None };
        match r.observers.iter_mut().find(|o| o.endpoint == endpoint) {
            Some(o) => *o = fresh, // same position, new token, count cleared
            None => r.observers.push(fresh), // appended after the existing ones
        }
    }

    pub fn deregister(&mut self, endpoint: u32, token: &[u8], path: &str) {
        if let Some(r) = self.resources.get_mut(path) {
            if let Some(pos) = r.observers.iter().position(|o| o.endpoint == endpoint && o.token == token) {
                r.observers.remove(pos);
            }
        }
    }

    /// One notification round. Returns whether the path had an entry.
    pub fn resource_changed(&mut self, path: &str, mid: u16, confirmable: bool) -> bool {
        let limit = self.limit;
        match self.resources.get_mut(path) {
            None => false, // creates nothing
            Some(r) => {
                r.sequence += 1;
                for o in r.observers.iter_mut() {
                    o.pending = Some(mid);
                    if confirmable {
                        o.unacked += 1;
                    }
                }
                r.observers.retain(|o| o.unacked <= limit);
                true
            }
        }
    }

    pub fn acknowledge(&mut self, endpoint: u32, mid: u16) {
        for r in self.resources.values_mut() {
            for o in r.observers.iter_mut() {
                if o.endpoint == endpoint && o.pending == Some(mid) {
                    o.unacked = 0;
                    o.pending = None;
                }
            }
        }
    }

    pub fn set_limit(&mut self, limit: u64) {
        self.limit = limit;
    }
}
