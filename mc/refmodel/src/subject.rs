//! Observe registry (RFC 7641 server side) as the properties C14/C15 state it:
//! path -> (sequence, ordered observers); one observer per endpoint per path.

use std::collections::BTreeMap;

#[derive(Clone, Debug, PartialEq, Eq, Hash)]
pub struct RefObserver {
    pub endpoint: u32,
    pub token: Vec<u8>,
    /// confirmable notifications since the last acknowledgement or registration
    pub unacked: u64,
    /// message id of the most recent notification, until acknowledged
    pub pending: Option<u16>,
}

#[derive(Clone, Debug, PartialEq, Eq, Hash, Default)]
pub struct RefResource {
    pub sequence: u64,
    pub observers: Vec<RefObserver>,
}

#[derive(Clone, Debug, PartialEq, Eq, Hash)]
pub struct RefSubject {
    pub resources: BTreeMap<String, RefResource>,
    pub limit: u64,
}

impl RefSubject {
    pub fn new(limit: u64) -> Self {
        RefSubject { resources: BTreeMap::new(), limit }
    }

    pub fn register(&mut self, endpoint: u32, token: &[u8], path: &str) {
        let r = self.resources.entry(path.to_string()).or_default();
        let fresh = RefObserver { endpoint, token: token.to_vec(), unacked: 0, pending: None };
        match r.observers.iter_mut().find(|o| o.endpoint == endpoint) {
            Some(o) => *o = fresh, // same position, new token, count cleared
            None => r.observers.push(fresh), // appended after the existing ones
        }
    }

    pub fn deregister(&mut self, endpoint: u32, token: &[u8], path: &str) {
        if let Some(r) = self.resources.get_mut(path) {
            if let Some(pos) = r.observers.iter().position(|o| o.endpoint == endpoint && o.token == token) {
                r.observers.remove(pos);
            }
        }
    }

    /// One notification round. Returns whether the path had an entry.
    pub fn resource_changed(&mut self, path: &str, mid: u16, confirmable: bool) -> bool {
        let limit = self.limit;
        match self.resources.get_mut(path) {
            None => false, // creates nothing
            Some(r) => {
                r.sequence += 1;
                for o in r.observers.iter_mut() {
                    o.pending = Some(mid);
                    if confirmable {
                        o.unacked += 1;
                    }
                }
                r.observers.retain(|o| o.unacked <= limit);
                true
            }
        }
    }

    pub fn acknowledge(&mut self, endpoint: u32, mid: u16) {
        for r in self.resources.values_mut() {
            for o in r.observers.iter_mut() {
                if o.endpoint == endpoint && o.pending == Some(mid) {
                    o.unacked = 0;
                    o.pending = None;
                }
            }
        }
    }

    pub fn set_limit(&mut self, limit: u64) {
        self.limit = limit;
    }
}

/// The action alphabet of the explicit-state searches (same table as the real-code search in
/// checks/src/observe.rs, written down a second time here for the cross-engine guard).
#[derive(Clone, Debug, PartialEq, Eq, Hash)]
pub enum SubjectAct {
    Register(u32, Vec<u8>, &'static str),
    Deregister(u32, Vec<u8>, &'static str),
    Changed(&'static str, u16, bool),
    Ack(u32, u16),
}

pub fn alphabet(wide: bool) -> Vec<SubjectAct> {
    alphabet_mode(if wide { 1 } else { 0 })
}

/// mode 0: 2 endpoints x 2 tokens x 2 paths; 1: 3 endpoints x 3 tokens x 1 path; 2: 2 endpoints x 1 token x 3 paths
pub fn alphabet_mode(mode: u8) -> Vec<SubjectAct> {
    let eps: Vec<u32> = if mode == 1 { vec![1, 2, 3] } else { vec![1, 2] };
    let toks: Vec<Vec<u8>> = match mode {
        1 => vec![vec![0xA1], vec![0xB2, 0xB3], vec![]],
        2 => vec![vec![0xA1]],
        _ => vec![vec![0xA1], vec![0xB2, 0xB3]],
    };
    let paths: Vec<&'static str> = match mode {
        1 => vec!["t"],
        2 => vec!["t", "t/", "/t"],
        _ => vec!["t", "s/u"],
    };
    let mut a = Vec::new();
    for &e in &eps {
        for t in &toks {
            for &p in &paths {
                a.push(SubjectAct::Register(e, t.clone(), p));
                a.push(SubjectAct::Deregister(e, t.clone(), p));
            }
        }
    }
    for p in paths.iter().copied().chain(std::iter::once("zz")) {
        for mid in [100u16, 200] {
            for con in [true, false] {
                a.push(SubjectAct::Changed(p, mid, con));
            }
        }
    }
    for e in eps.iter().copied().chain(std::iter::once(9)) {
        for mid in [100u16, 200] {
            a.push(SubjectAct::Ack(e, mid));
        }
    }
    a
}

impl RefSubject {
    pub fn apply(&mut self, a: &SubjectAct) {
        match a {
            SubjectAct::Register(e, t, p) => self.register(*e, t, p),
            SubjectAct::Deregister(e, t, p) => self.deregister(*e, t, p),
            SubjectAct::Changed(p, mid, con) => {
                self.resource_changed(p, *mid, *con);
            }
            SubjectAct::Ack(e, mid) => self.acknowledge(*e, *mid),
        }
    }
    /// Canonical form used for state identity: the sequence counters and observer-less entries are dropped.
    pub fn canonical(mut self) -> RefSubject {
        for r in self.resources.values_mut() {
            r.sequence = 0;
        }
        // an entry whose observers all left is not part of the canonical state (same rule as the real-code search)
        self.resources.retain(|_, r| !r.observers.is_empty());
        self
    }
}
