//! RFC 7252 section 3.2 "uint" option value format: the shortest big-endian
//! representation; zero is the empty string; decoders accept leading zeros.

/// Minimal big-endian encoding of `v`.
pub fn enc(v: u128) -> Vec<u8> {
    let mut n = 0usize;
    while n < 16 && (v >> (8 * n)) != 0 {
        n += 1;
    }
    (0..n).rev().map(|i| ((v >> (8 * i)) & 0xFF) as u8).collect()
}

/// Big-endian value of `b` if it is at most `width` bytes long.
pub fn dec(b: &[u8], width: usize) -> Option<u128> {
    if b.len() > width || b.len() > 16 {
        return None;
    }
    let mut v: u128 = 0;
    for x in b {
        v = v * 256 + *x as u128;
    }
    Some(v)
}

#[cfg(test)]
mod tests {
    use super::*;
    #[test]
    fn basics() {
        assert_eq!(enc(0), Vec::<u8>::new());
        assert_eq!(enc(1), vec![1]);
        assert_eq!(enc(255), vec![255]);
        assert_eq!(enc(256), vec![1, 0]);
        assert_eq!(enc(0x01_0000), vec![1, 0, 0]);
        assert_eq!(enc(u64::MAX as u128), vec![255; 8]);
        assert_eq!(dec(&[0, 0, 1], 4), Some(1));
        assert_eq!(dec(&[0, 0, 1], 2), None);
        assert_eq!(dec(&[], 1), Some(0));
    }
}
