//! IANA "Constrained RESTful Environments (CoRE) Parameters" registries and the
//! RFC tables behind them, transcribed by hand (RFC 7252 sections 12.1-12.3,
//! RFC 7641, RFC 7959, RFC 7967, RFC 8132, RFC 8516, RFC 8613, RFC 8768,
//! RFC 9254 and the IANA Content-Formats table).  Independent of the crate's
//! source: the third column is the *identifier the crate is expected to use*
//! for that registry entry, as one reads the registry name in CamelCase.

/// (number, IANA name, expected CoapOption variant name or "" when the crate
/// does not name it).
pub const OPTIONS: &[(u16, &str, &str)] = &[
    (1, "If-Match", "IfMatch"),
    (3, "Uri-Host", "UriHost"),
    (4, "ETag", "ETag"),
    (5, "If-None-Match", "IfNoneMatch"),
    (6, "Observe", "Observe"),
    (7, "Uri-Port", "UriPort"),
    (8, "Location-Path", "LocationPath"),
    (9, "OSCORE", "Oscore"),
    (11, "Uri-Path", "UriPath"),
    (12, "Content-Format", "ContentFormat"),
    (14, "Max-Age", "MaxAge"),
    (15, "Uri-Query", "UriQuery"),
    (16, "Hop-Limit", ""),
    (17, "Accept", "Accept"),
    (19, "Q-Block1", ""),
    (20, "Location-Query", "LocationQuery"),
    (21, "EDHOC", ""),
    (23, "Block2", "Block2"),
    (27, "Block1", "Block1"),
    (28, "Size2", "Size2"),
    (31, "Q-Block2", ""),
    (35, "Proxy-Uri", "ProxyUri"),
    (39, "Proxy-Scheme", "ProxyScheme"),
    (60, "Size1", "Size1"),
    (252, "Echo", ""),
    (258, "No-Response", "NoResponse"),
    (292, "Request-Tag", ""),
];

/// Normal form used to compare an IANA option name with a variant identifier.
pub fn norm(s: &str) -> String {
    s.chars().filter(|c| c.is_ascii_alphanumeric()).map(|c| c.to_ascii_lowercase()).collect()
}

/// (id, IANA media type (+ parameters), expected ContentFormat variant name or "").
pub const CONTENT_FORMATS: &[(u16, &str, &str)] = &[
    (0, "text/plain; charset=utf-8", "TextPlain"),
    (16, "application/cose; cose-type=\"cose-encrypt0\"", "ApplicationCoseEncrypt0"),
    (17, "application/cose; cose-type=\"cose-mac0\"", "ApplicationCoseMac0"),
    (18, "application/cose; cose-type=\"cose-sign1\"", "ApplicationCoseSign1"),
    (19, "application/ace+cbor", "ApplicationAceCbor"),
    (21, "image/gif", "ImageGif"),
    (22, "image/jpeg", "ImageJpeg"),
    (23, "image/png", "ImagePng"),
    (40, "application/link-format", "ApplicationLinkFormat"),
    (41, "application/xml", "ApplicationXML"),
    (42, "application/octet-stream", "ApplicationOctetStream"),
    (47, "application/exi", "ApplicationEXI"),
    (50, "application/json", "ApplicationJSON"),
    (51, "application/json-patch+json", "ApplicationJsonPatchJson"),
    (52, "application/merge-patch+json", "ApplicationMergePatchJson"),
    (60, "application/cbor", "ApplicationCBOR"),
    (61, "application/cwt", "ApplicationCWt"),
    (62, "application/multipart-core", "ApplicationMultipartCore"),
    (63, "application/cbor-seq", "ApplicationCborSeq"),
    (64, "application/edhoc+cbor-seq", ""),
    (65, "application/cid-edhoc+cbor-seq", ""),
    (96, "application/cose; cose-type=\"cose-encrypt\"", "ApplicationCoseEncrypt"),
    (97, "application/cose; cose-type=\"cose-mac\"", "ApplicationCoseMac"),
    (98, "application/cose; cose-type=\"cose-sign\"", "ApplicationCoseSign"),
    (101, "application/cose-key", "ApplicationCoseKey"),
    (102, "application/cose-key-set", "ApplicationCoseKeySet"),
    (110, "application/senml+json", "ApplicationSenmlJSON"),
    (111, "application/sensml+json", "ApplicationSensmlJSON"),
    (112, "application/senml+cbor", "ApplicationSenmlCBOR"),
    (113, "application/sensml+cbor", "ApplicationSensmlCBOR"),
    (114, "application/senml-exi", "ApplicationSenmlExi"),
    (115, "application/sensml-exi", "ApplicationSensmlExi"),
    (140, "application/yang-data+cbor; id=sid", "ApplicationYangDataCborSid"),
    (256, "application/coap-group+json", "ApplicationCoapGroupJson"),
    (257, "application/concise-problem-details+cbor", ""),
    (258, "application/swid+cbor", ""),
    (271, "application/dots+cbor", "ApplicationDotsCbor"),
    (272, "application/missing-blocks+cbor-seq", "ApplicationMissingBlocksCborSeq"),
    (280, "application/pkcs7-mime; smime-type=server-generated-key", "ApplicationPkcs7MimeServerGeneratedKey"),
    (281, "application/pkcs7-mime; smime-type=certs-only", "ApplicationPkcs7MimeCertsOnly"),
    (284, "application/pkcs8", "ApplicationPkcs8"),
    (285, "application/csrattrs", "ApplicationCsrattrs"),
    (286, "application/pkcs10", "ApplicationPkcs10"),
    (287, "application/pkix-cert", "ApplicationPkixCert"),
    (290, "application/aif+cbor", "ApplicationAifCbor"),
    (291, "application/aif+json", "ApplicationAifJson"),
    (310, "application/senml+xml", "ApplicationSenmlXML"),
    (311, "application/sensml+xml", "ApplicationSensmlXML"),
    (320, "application/senml-etch+json", "ApplicationSenmlEtchJson"),
    (322, "application/senml-etch+cbor", "ApplicationSenmlEtchCbor"),
    (340, "application/yang-data+cbor", "ApplicationYangDataCbor"),
    (341, "application/yang-data+cbor; id=name", "ApplicationYangDataCborName"),
    (432, "application/td+json", "ApplicationTdJson"),
    (433, "application/tm+json", ""),
    (836, "application/voucher+cose", "ApplicationVoucherCoseCbor"),
    (10000, "application/vnd.ocf+cbor", "ApplicationVndOcfCbor"),
    (10001, "application/oscore", "ApplicationOscore"),
    (10002, "application/javascript", "ApplicationJavascript"),
    (11050, "application/json@deflate", "ApplicationJsonDeflate"),
    (11060, "application/cbor@deflate", "ApplicationCborDeflate"),
    (11542, "application/vnd.oma.lwm2m+tlv", "ApplicationVndOmaLwm2mTlv"),
    (11543, "application/vnd.oma.lwm2m+json", "ApplicationVndOmaLwm2mJson"),
    (11544, "application/vnd.oma.lwm2m+cbor", "ApplicationVndOmaLwm2mCbor"),
    (20000, "text/css", "TextCss"),
    (30000, "image/svg+xml", "ImageSvgXml"),
];

/// Request methods (RFC 7252 12.1.1, RFC 8132): (code byte, name, expected variant).
pub const METHODS: &[(u8, &str, &str)] = &[
    (0x01, "GET", "Get"),
    (0x02, "POST", "Post"),
    (0x03, "PUT", "Put"),
    (0x04, "DELETE", "Delete"),
    (0x05, "FETCH", "Fetch"),
    (0x06, "PATCH", "Patch"),
    (0x07, "iPATCH", "IPatch"),
];

/// Response codes (RFC 7252 12.1.2, RFC 7959, RFC 8132, RFC 8516, RFC 8768):
/// (class, detail, name, expected variant).
pub const RESPONSES: &[(u8, u8, &str, &str)] = &[
    (2, 1, "Created", "Created"),
    (2, 2, "Deleted", "Deleted"),
    (2, 3, "Valid", "Valid"),
    (2, 4, "Changed", "Changed"),
    (2, 5, "Content", "Content"),
    (2, 31, "Continue", "Continue"),
    (4, 0, "Bad Request", "BadRequest"),
    (4, 1, "Unauthorized", "Unauthorized"),
    (4, 2, "Bad Option", "BadOption"),
    (4, 3, "Forbidden", "Forbidden"),
    (4, 4, "Not Found", "NotFound"),
    (4, 5, "Method Not Allowed", "MethodNotAllowed"),
    (4, 6, "Not Acceptable", "NotAcceptable"),
    (4, 8, "Request Entity Incomplete", "RequestEntityIncomplete"),
    (4, 9, "Conflict", "Conflict"),
    (4, 12, "Precondition Failed", "PreconditionFailed"),
    (4, 13, "Request Entity Too Large", "RequestEntityTooLarge"),
    (4, 15, "Unsupported Content-Format", "UnsupportedContentFormat"),
    (4, 22, "Unprocessable Entity", "UnprocessableEntity"),
    (4, 29, "Too Many Requests", "TooManyRequests"),
    (5, 0, "Internal Server Error", "InternalServerError"),
    (5, 1, "Not Implemented", "NotImplemented"),
    (5, 2, "Bad Gateway", "BadGateway"),
    (5, 3, "Service Unavailable", "ServiceUnavailable"),
    (5, 4, "Gateway Timeout", "GatewayTimeout"),
    (5, 5, "Proxying Not Supported", "ProxyingNotSupported"),
    (5, 8, "Hop Limit Reached", "HopLimitReached"),
];

pub fn response_byte(class: u8, detail: u8) -> u8 {
    (class << 5) | detail
}

/// Message types (RFC 7252 section 3): 2-bit value, expected variant.
pub const TYPES: &[(u8, &str)] = &[
    (0, "Confirmable"),
    (1, "NonConfirmable"),
    (2, "Acknowledgement"),
    (3, "Reset"),
];

/// Observe request option values (RFC 7641 section 2): value, expected variant.
pub const OBSERVE_ACTIONS: &[(u32, &str)] = &[(0, "Register"), (1, "Deregister")];

/// "c.dd" text of a code byte (RFC 7252 section 3: 3-bit class, 5-bit detail, two-digit detail).
pub fn dotted(code: u8) -> String {
    format!("{}.{:02}", code >> 5, code & 0x1F)
}

/// The registered name of a code byte, as the expected Debug text of the
/// crate's MessageClass, or None when the code is unassigned.
pub fn code_expected_debug(code: u8) -> Option<String> {
    if code == 0 {
        return Some("Empty".to_string());
    }
    for (b, _, v) in METHODS {
        if *b == code {
            return Some(format!("Request({})", v));
        }
    }
    for (c, d, _, v) in RESPONSES {
        if response_byte(*c, *d) == code {
            return Some(format!("Response({})", v));
        }
    }
    None
}

#[cfg(test)]
mod tests {
    use super::*;
    #[test]
    fn tables_are_functions() {
        let mut o: Vec<u16> = OPTIONS.iter().map(|x| x.0).collect();
        o.dedup();
        assert_eq!(o.len(), OPTIONS.len());
        assert!(OPTIONS.windows(2).all(|w| w[0].0 < w[1].0));
        assert!(CONTENT_FORMATS.windows(2).all(|w| w[0].0 < w[1].0));
        assert_eq!(OPTIONS.iter().filter(|x| !x.2.is_empty()).count(), 21);
        assert_eq!(CONTENT_FORMATS.iter().filter(|x| !x.2.is_empty()).count(), 60);
        for (_, name, v) in OPTIONS {
            if !v.is_empty() {
                assert_eq!(norm(name), norm(v));
            }
        }
        assert_eq!(dotted(0x45), "2.05");
        assert_eq!(dotted(0xFF), "7.31");
        assert_eq!(response_byte(4, 4), 0x84);
        assert_eq!(RESPONSES.len(), 27);
    }
}
