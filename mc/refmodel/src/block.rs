//! RFC 7959 section 2.2: Block option value = uint(NUM << 4 | M << 3 | SZX),
//! 0-3 bytes; block size = 2^(SZX+4); SZX 7 is reserved.

use crate::uint;

pub fn value(num: u32, more: bool, szx: u8) -> u32 {
    (num << 4) | ((more as u32) << 3) | (szx as u32 & 7)
}

pub fn enc(num: u32, more: bool, szx: u8) -> Vec<u8> {
    uint::enc(value(num, more, szx) as u128)
}

/// (num, more, szx) of an option value of at most three bytes.
pub fn dec(b: &[u8]) -> Option<(u32, bool, u8)> {
    let v = uint::dec(b, 3)? as u32;
    Some((v >> 4, (v >> 3) & 1 == 1, (v & 7) as u8))
}

pub fn size(szx: u8) -> usize {
    1usize << (szx as usize + 4)
}

/// SZX for a byte size: largest power of two not exceeding it, but at least 16.
/// None when the size is 0 or 4096 and above (the exponent would not fit SZX).
pub fn szx_for_size(size: u128) -> Option<u8> {
    if size == 0 || size >= 4096 {
        return None;
    }
    let mut log = 0u32;
    while (1u128 << (log + 1)) <= size {
        log += 1;
    }
    Some((log.max(4) - 4) as u8)
}

#[cfg(test)]
mod tests {
    use super::*;
    #[test]
    fn basics() {
        assert_eq!(enc(0, false, 0), Vec::<u8>::new());
        assert_eq!(enc(0, true, 2), vec![0x0A]);
        assert_eq!(enc(4095, true, 6), vec![0xFF, 0xFE]);
        assert_eq!(enc(4096, false, 0), vec![1, 0, 0]);
        assert_eq!(dec(&[1, 0, 0]), Some((4096, false, 0)));
        assert_eq!(szx_for_size(15), Some(0));
        assert_eq!(szx_for_size(16), Some(0));
        assert_eq!(szx_for_size(31), Some(0));
        assert_eq!(szx_for_size(32), Some(1));
        assert_eq!(szx_for_size(2048), Some(7));
        assert_eq!(szx_for_size(4095), Some(7));
        assert_eq!(szx_for_size(4096), None);
        assert_eq!(size(6), 1024);
    }
}
