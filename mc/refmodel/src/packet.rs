//! API-level model of a message under construction: what each public mutator
//! of the crate's `Packet`/`Header` is documented to do, and the wire-level
//! message the accumulated state denotes.

use crate::codec::RefMsg;
use std::collections::BTreeMap;

#[derive(Clone, Debug, PartialEq, Eq, Hash)]
pub struct RefPacket {
    pub version: u8,
    pub mtype: u8,
    pub code: u8,
    pub mid: u16,
    pub token: Vec<u8>,
    /// number -> ordered values; a cleared option stays as an empty list
    /// (it contributes nothing to the wire image).
    pub options: BTreeMap<u16, Vec<Vec<u8>>>,
    pub payload: Vec<u8>,
}

impl Default for RefPacket {
    /// A new packet: version 1, Confirmable, GET (0.01), message id 0, no
    /// token, no options, no payload (the crate's documented default header).
    fn default() -> Self {
        RefPacket {
            version: 1,
            mtype: 0,
            code: 0x01,
            mid: 0,
            token: vec![],
            options: BTreeMap::new(),
            payload: vec![],
        }
    }
}

impl RefPacket {
    pub fn set_version(&mut self, v: u8) {
        self.version = v & 3;
    }
    pub fn set_type(&mut self, t: u8) {
        self.mtype = t & 3;
    }
    pub fn set_code(&mut self, c: u8) {
        self.code = c;
    }
    pub fn set_mid(&mut self, m: u16) {
        self.mid = m;
    }
    pub fn set_token(&mut self, t: Vec<u8>) {
        self.token = t;
    }
    pub fn add_option(&mut self, n: u16, v: Vec<u8>) {
        self.options.entry(n).or_default().push(v);
    }
    pub fn clear_option(&mut self, n: u16) {
        if let Some(l) = self.options.get_mut(&n) {
            l.clear();
        }
    }
    pub fn set_option(&mut self, n: u16, vs: Vec<Vec<u8>>) {
        self.options.insert(n, vs);
    }
    pub fn clear_all_options(&mut self) {
        self.options.clear();
    }
    pub fn set_payload(&mut self, p: Vec<u8>) {
        self.payload = p;
    }
    /// The wire-level message this state denotes.
    pub fn msg(&self) -> RefMsg {
        let mut options = Vec::new();
        for (n, vs) in &self.options {
            for v in vs {
                options.push((*n as u32, v.clone()));
            }
        }
        RefMsg {
            version: self.version,
            mtype: self.mtype,
            token: self.token.clone(),
            code: self.code,
            mid: self.mid,
            options,
            payload: self.payload.clone(),
        }
    }
}
