//! Reference models, written from the RFC texts, independent of the crate under test.
pub mod block;
pub mod codec;
pub mod packet;
pub mod registries;
pub mod subject;
pub mod uint;
