//! Run context and the sharded, random-access family runner (shape E1/E3).

use crate::guard;
use crate::report::{FamilyInfo, Report};
use std::sync::atomic::{AtomicU64, Ordering};
use std::sync::Mutex;

#[derive(Clone, Copy, Debug, PartialEq, Eq)]
pub enum Tier {
    Quick,
    Thorough,
}

#[derive(Clone, Debug)]
pub struct Ctx {
    pub tier: Tier,
    pub seed: u64,
    /// Name of the build configuration this binary was built in (oc, rel, nostd, udp, asan, …).
    pub config: String,
    pub threads: usize,
    /// Replay selection: run only this (family, index).
    pub only: Option<(String, u64)>,
    /// Replay selection for state-space families: (family, action history).
    pub only_history: Option<(String, Vec<usize>)>,
    pub verbose: bool,
}

impl Ctx {
    pub fn thorough(&self) -> bool {
        self.tier == Tier::Thorough
    }
    pub fn quick(&self) -> bool {
        self.tier == Tier::Quick
    }
    pub fn replaying(&self) -> bool {
        self.only.is_some() || self.only_history.is_some()
    }
    /// Whether a family takes part in this run at all.
    pub fn family_selected(&self, name: &str) -> bool {
        match (&self.only, &self.only_history) {
            (Some((f, _)), _) => f == name,
            (_, Some((f, _))) => f == name,
            _ => true,
        }
    }
    /// A few seed-dependent indices per family are written out as samples.
    pub fn want_sample(&self, idx: u64, n: u64) -> bool {
        if n == 0 {
            return false;
        }
        let s = self.seed.wrapping_mul(0x9E3779B97F4A7C15);
        for k in 0..3u64 {
            let pos = (s.wrapping_add(k.wrapping_mul(n / 3 + 1))) % n;
            if pos == idx {
                return true;
            }
        }
        false
    }

    /// Enumerates cases `0..n` of a family, sharded over the worker threads.
    /// `f(i, rep)` evaluates case `i` on the real code and records outcome
    /// classes, buckets, samples and violations in the thread-local report.
    /// `exhaustive` states whether `0..n` is the complete stated space.
    pub fn family<F>(&self, rep: &mut Report, name: &str, description: &str, n: u64, exhaustive: bool, f: F)
    where
        F: Fn(u64, &mut Report) + Sync,
    {
        if !self.family_selected(name) {
            return;
        }
        if crate::report::flooded() && !self.replaying() {
            return;
        }
        if let Some((_, idx)) = &self.only {
            // Replay: execute exactly this case, twice, and require identical observations.
            let mut a = Report::new();
            guard::set_current_family(name);
            guard::set_current_index(*idx);
            f(*idx, &mut a);
            a.evaluations += 1;
            let mut b = Report::new();
            f(*idx, &mut b);
            b.evaluations += 1;
            if a.digest() != b.digest() {
                eprintln!("MACHINERY: replay of {}:{} is not deterministic", name, idx);
                std::process::exit(2);
            }
            rep.merge(a);
            return;
        }
        if self.only_history.is_some() {
            return;
        }
        let chunk: u64 = (n / (self.threads as u64 * 16)).clamp(1, 8192);
        // Determinism guard: first chunk twice.
        let first_end = chunk.min(n);
        let run_range = |lo: u64, hi: u64| -> Report {
            let mut r = Report::new();
            guard::heartbeat(|| format!("{}:{}..{}", name, lo, hi));
            guard::set_current_family(name);
            for i in lo..hi {
                guard::set_current_index(i);
                if i & 7 == 0 {
                    guard::tick();
                }
                f(i, &mut r);
            }
            r.evaluations += hi - lo;
            r
        };
        let trace = std::env::var("VERIF_TRACE_CASES").is_ok();
        if trace {
            // tiny families in the unoptimised configuration: name every case before running it, single-threaded,
            // so that a death without a panic (stack overflow) can still be tied to its case
            let mut r = Report::new();
            for i in 0..n {
                eprintln!("CASE {}:{}", name, i);
                guard::set_current_family(name);
                guard::set_current_index(i);
                f(i, &mut r);
            }
            r.evaluations += n;
            rep.merge(r);
            rep.families.push(FamilyInfo { name: name.to_string(), description: description.to_string(), evaluations: n, exhaustive, ..Default::default() });
            return;
        }
        let a = run_range(0, first_end);
        let b = run_range(0, first_end);
        if a.digest() != b.digest() {
            eprintln!(
                "MACHINERY: family {} is not deterministic on its first chunk (digests {:x} vs {:x})",
                name,
                a.digest(),
                b.digest()
            );
            std::process::exit(2);
        }
        // the calling thread only waits from here on: it must not look stalled to the watchdog
        guard::heartbeat_done();
        let next = AtomicU64::new(first_end);
        let merged = Mutex::new(a);
        std::thread::scope(|s| {
            for _ in 0..self.threads {
                s.spawn(|| {
                    let mut local = Report::new();
                    loop {
                        let lo = next.fetch_add(chunk, Ordering::Relaxed);
                        if lo >= n || crate::report::flooded() {
                            break;
                        }
                        let hi = (lo + chunk).min(n);
                        guard::heartbeat(|| format!("{}:{}..{}", name, lo, hi));
                        guard::set_current_family(name);
                        let mut done = 0u64;
                        for i in lo..hi {
                            guard::set_current_index(i);
                            if i & 7 == 0 {
                                guard::tick();
                                if crate::report::flooded() {
                                    break;
                                }
                            }
                            f(i, &mut local);
                            done += 1;
                        }
                        local.evaluations += done;
                    }
                    guard::heartbeat_done();
                    merged.lock().unwrap().merge(local);
                });
            }
        });
        guard::heartbeat_done();
        let m = merged.into_inner().unwrap();
        rep.merge(m);
        let cut = crate::report::flooded();
        if cut {
            rep.note("enumeration_cut_short_after_violation_flood", true);
        }
        rep.families.push(FamilyInfo {
            name: name.to_string(),
            description: description.to_string(),
            evaluations: n,
            exhaustive: exhaustive && !cut,
            ..Default::default()
        });
        if self.verbose {
            eprintln!("[{}] family {}: {} cases", self.config, name, n);
        }
    }
}

/// Mixed-radix decoding of a case index (last radix varies fastest).
pub fn decode(mut idx: u64, radices: &[u64]) -> Vec<u64> {
    let mut out = vec![0u64; radices.len()];
    for k in (0..radices.len()).rev() {
        let r = radices[k].max(1);
        out[k] = idx % r;
        idx /= r;
    }
    out
}

pub fn product(radices: &[u64]) -> u64 {
    radices.iter().fold(1u64, |a, &b| a.checked_mul(b.max(1)).expect("family too large"))
}

/// Number of strings of length 0..=max_len over an alphabet of `k` symbols.
pub fn strings_upto_count(k: u64, max_len: u32) -> u64 {
    (0..=max_len).map(|l| k.pow(l)).sum()
}

/// Random access into "all strings of length 0..=max_len over k symbols",
/// ordered by length then lexicographically. Returns symbol indices.
pub fn string_at(mut idx: u64, k: u64, max_len: u32) -> Vec<u64> {
    for l in 0..=max_len {
        let c = k.pow(l);
        if idx < c {
            let mut out = vec![0u64; l as usize];
            for p in (0..l as usize).rev() {
                out[p] = idx % k;
                idx /= k;
            }
            return out;
        }
        idx -= c;
    }
    panic!("string_at: index out of range");
}
