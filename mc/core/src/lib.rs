//! mccore — deterministic bounded-exhaustive exploration of real code.
//!
//! Three exploration shapes (DESIGN.md 2.2):
//!   E1  `par::Ctx::family`  — random-access enumeration of a finite input family
//!   E2  `bfs::run`          — explicit-state BFS over real objects with replay-from-history
//!   E3  deviation/fault enumeration, expressed as E1 families whose index encodes
//!       the deviation vector (fault position, duplicate counts, clock advances, …)
//!
//! Nothing in here depends on the crate under test.

pub mod bfs;
pub mod guard;
pub mod json;
pub mod par;
pub mod report;

pub use guard::{guard, Panicked};
pub use json::{hex, hex_short, Json};
pub use par::{decode, product, string_at, strings_upto_count, Ctx, Tier};
pub use report::{Report, Violation};

/// Convenience: build a violation for an indexed (E1/E3) case.
pub fn viol(family: &str, index: u64, signature: impl Into<String>, what: impl Into<String>, case: Json) -> Violation {
    Violation {
        signature: signature.into(),
        what: what.into(),
        family: family.to_string(),
        index: Some(index),
        history: None,
        case,
    }
}
