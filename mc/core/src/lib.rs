//! mccore — deterministic bounded-exhaustive exploration of real code.
//!
//! Three exploration shapes (DESIGN.md 2.2):
//!   E1  `par::Ctx::family`  — random-access enumeration of a finite input family
//!   E2  `bfs::run`          — explicit-state BFS over real objects with replay-from-history
//!   E3  deviation/fault enumeration, expressed as E1 families whose index encodes
//!       the deviation vector (fault position, duplicate counts, clock advances, …)
//!
//! Nothing in here depends on the crate under test.

pub mod bfs;
pub mod guard;
pub mod json;
pub mod par;
pub mod report;

pub use guard::{guard, Panicked};
pub use json::{hex, hex_short, Json};
pub use par::{decode, product, string_at, strings_upto_count, Ctx, Tier};
pub use report::{Report, Violation};

/// Convenience: build a violation for an indexed (E1/E3) case.
pub fn viol(family: &str, index: u64, signature: impl Into<String>, what: impl Into<String>, case: Json) -> Violation {
    Violation {
        signature: signature.into(),
        what: what.into(),
        family: family.to_string(),
        index: Some(index),
        history: None,
        case,
    }
}

#[cfg(test)]
mod tests {
    use super::*;
    use crate::bfs::{self, Step};

    fn ctx(threads: usize) -> Ctx {
        Ctx { tier: Tier::Quick, seed: 3, config: "test".into(), threads, only: None, only_history: None, verbose: false }
    }

    #[test]
    fn mixed_radix_and_strings_are_bijections() {
        let r = [3u64, 1, 4, 2];
        let n = product(&r);
        let mut seen = std::collections::HashSet::new();
        for i in 0..n {
            let d = decode(i, &r);
            assert!(d.iter().zip(r.iter()).all(|(a, b)| a < b));
            assert!(seen.insert(d));
        }
        assert_eq!(seen.len() as u64, n);
        let total = strings_upto_count(3, 4);
        assert_eq!(total, 1 + 3 + 9 + 27 + 81);
        let mut s = std::collections::HashSet::new();
        for i in 0..total {
            let x = string_at(i, 3, 4);
            assert!(x.len() <= 4 && x.iter().all(|c| *c < 3));
            assert!(s.insert(x));
        }
        assert_eq!(s.len() as u64, total);
    }

    #[test]
    fn family_visits_every_index_once_whatever_the_thread_count() {
        for threads in [1usize, 3, 16] {
            let mut rep = Report::new();
            let hits: Vec<std::sync::atomic::AtomicU32> = (0..10_000).map(|_| std::sync::atomic::AtomicU32::new(0)).collect();
            ctx(threads).family(&mut rep, "f", "test", 10_000, true, |i, r| {
                hits[i as usize].fetch_add(1, std::sync::atomic::Ordering::Relaxed);
                r.count(if i % 2 == 0 { "even" } else { "odd" });
                r.bucket(&(i % 7));
            });
            // the first chunk is executed twice (determinism guard), everything else once
            let twice = hits.iter().filter(|h| h.load(std::sync::atomic::Ordering::Relaxed) == 2).count();
            let once = hits.iter().filter(|h| h.load(std::sync::atomic::Ordering::Relaxed) == 1).count();
            assert_eq!(once + twice, 10_000);
            assert!(twice > 0 && twice <= 8192);
            assert_eq!(rep.evaluations, 10_000);
            assert_eq!(rep.hist["even"], 5_000);
            assert_eq!(rep.buckets.len(), 7);
        }
    }

    /// Toy system: a pair of counters modulo 5 and 7 with three actions; 35 reachable states.
    #[test]
    fn bfs_closes_a_known_state_space_and_reports_violations_with_shortest_histories() {
        let mut rep = Report::new();
        let st = bfs::run(
            &ctx(4),
            &mut rep,
            bfs::Spec {
                name: "toy",
                description: "toy",
                nacts: 3,
                max_depth: 64,
                fresh: &|| (0u32, 0u32),
                step: &|s: &mut (u32, u32), a: usize, _c: bool| {
                    match a {
                        0 => s.0 = (s.0 + 1) % 5,
                        1 => s.1 = (s.1 + 1) % 7,
                        _ => {
                            if s.0 == 0 {
                                return Step::Disabled;
                            }
                            std::mem::swap(&mut s.0, &mut s.1);
                            s.0 %= 5;
                            s.1 %= 7;
                        }
                    }
                    if *s == (3, 4) {
                        return Step::Violated("toy/bad-state".into(), "reached (3,4)".into(), Json::Null);
                    }
                    Step::Ok
                },
                key: &|s: &(u32, u32)| *s,
                project: None,
                label: &|a| format!("a{}", a),
            },
        );
        assert!(st.closed);
        // every state except the violating one is stored (violating transitions are not expanded)
        assert_eq!(st.states, 34);
        let v = rep.violations.iter().find(|v| v.signature == "toy/bad-state").expect("violation found");
        assert_eq!(v.history.as_ref().unwrap().len(), 7, "BFS reports a shortest history");
    }

    #[test]
    fn guard_captures_panics_with_their_site() {
        let r: Result<(), Panicked> = guard(|| panic!("boom {}", 7));
        let p = r.unwrap_err();
        assert!(p.message.contains("boom 7"));
        assert!(p.site().starts_with("src/"));
        assert_eq!(guard(|| 41 + 1).unwrap(), 42);
    }
}
