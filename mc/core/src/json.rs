//! Minimal JSON value + writer (no dependencies).

use std::fmt;

#[derive(Clone, Debug, PartialEq)]
pub enum Json {
    Null,
    Bool(bool),
    Int(i128),
    Float(f64),
    Str(String),
    Arr(Vec<Json>),
    Obj(Vec<(String, Json)>),
}

impl Json {
    pub fn obj() -> Json {
        Json::Obj(Vec::new())
    }
    pub fn set(mut self, k: &str, v: impl Into<Json>) -> Json {
        if let Json::Obj(ref mut o) = self {
            let v = v.into();
            if let Some(e) = o.iter_mut().find(|(kk, _)| kk == k) {
                e.1 = v;
            } else {
                o.push((k.to_string(), v));
            }
        }
        self
    }
    pub fn put(&mut self, k: &str, v: impl Into<Json>) {
        if let Json::Obj(ref mut o) = self {
            let v = v.into();
            if let Some(e) = o.iter_mut().find(|(kk, _)| kk == k) {
                e.1 = v;
            } else {
                o.push((k.to_string(), v));
            }
        }
    }
    pub fn hex(b: &[u8]) -> Json {
        Json::Str(hex(b))
    }
}

pub fn hex(b: &[u8]) -> String {
    let mut s = String::with_capacity(b.len() * 2);
    for x in b {
        s.push_str(&format!("{:02x}", x));
    }
    s
}

/// Hex with long runs summarised, for human-readable samples of big buffers.
pub fn hex_short(b: &[u8]) -> String {
    if b.len() <= 48 {
        hex(b)
    } else {
        format!("{}..({} bytes)..{}", hex(&b[..24]), b.len(), hex(&b[b.len() - 8..]))
    }
}

impl From<bool> for Json {
    fn from(v: bool) -> Json {
        Json::Bool(v)
    }
}
impl From<&str> for Json {
    fn from(v: &str) -> Json {
        Json::Str(v.to_string())
    }
}
impl From<String> for Json {
    fn from(v: String) -> Json {
        Json::Str(v)
    }
}
impl From<&String> for Json {
    fn from(v: &String) -> Json {
        Json::Str(v.clone())
    }
}
impl From<f64> for Json {
    fn from(v: f64) -> Json {
        Json::Float(v)
    }
}
macro_rules! from_int {
    ($($t:ty),*) => {$(
        impl From<$t> for Json { fn from(v: $t) -> Json { Json::Int(v as i128) } }
    )*};
}
from_int!(u8, u16, u32, u64, usize, i8, i16, i32, i64, isize, u128, i128);
impl<T: Into<Json>> From<Vec<T>> for Json {
    fn from(v: Vec<T>) -> Json {
        Json::Arr(v.into_iter().map(|x| x.into()).collect())
    }
}
impl<T: Into<Json>> From<Option<T>> for Json {
    fn from(v: Option<T>) -> Json {
        match v {
            Some(x) => x.into(),
            None => Json::Null,
        }
    }
}

fn esc(s: &str, f: &mut fmt::Formatter<'_>) -> fmt::Result {
    f.write_str("\"")?;
    for c in s.chars() {
        match c {
            '"' => f.write_str("\\\"")?,
            '\\' => f.write_str("\\\\")?,
            '\n' => f.write_str("\\n")?,
            '\r' => f.write_str("\\r")?,
            '\t' => f.write_str("\\t")?,
            c if (c as u32) < 0x20 => write!(f, "\\u{:04x}", c as u32)?,
            c => write!(f, "{}", c)?,
        }
    }
    f.write_str("\"")
}

impl fmt::Display for Json {
    fn fmt(&self, f: &mut fmt::Formatter<'_>) -> fmt::Result {
        match self {
            Json::Null => f.write_str("null"),
            Json::Bool(b) => write!(f, "{}", b),
            Json::Int(i) => write!(f, "{}", i),
            Json::Float(x) => {
                if x.is_finite() {
                    write!(f, "{}", x)
                } else {
                    f.write_str("null")
                }
            }
            Json::Str(s) => esc(s, f),
            Json::Arr(a) => {
                f.write_str("[")?;
                for (i, x) in a.iter().enumerate() {
                    if i > 0 {
                        f.write_str(",")?;
                    }
                    write!(f, "{}", x)?;
                }
                f.write_str("]")
            }
            Json::Obj(o) => {
                f.write_str("{")?;
                for (i, (k, v)) in o.iter().enumerate() {
                    if i > 0 {
                        f.write_str(",")?;
                    }
                    esc(k, f)?;
                    f.write_str(":")?;
                    write!(f, "{}", v)?;
                }
                f.write_str("}")
            }
        }
    }
}
