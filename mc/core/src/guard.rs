//! Panic capture around subject calls, and a watchdog for non-termination.

use std::cell::RefCell;
use std::panic::{self, AssertUnwindSafe};
use std::sync::atomic::{AtomicBool, AtomicU64, Ordering};
use std::sync::{Mutex, OnceLock};
use std::time::{Duration, Instant};

thread_local! {
    static LAST_PANIC: RefCell<Option<String>> = const { RefCell::new(None) };
    static IN_GUARD: RefCell<bool> = const { RefCell::new(false) };
}

static HOOK_INSTALLED: AtomicBool = AtomicBool::new(false);

thread_local! {
    static CUR_FAMILY: RefCell<String> = const { RefCell::new(String::new()) };
    static CUR_INDEX: std::cell::Cell<u64> = const { std::cell::Cell::new(0) };
}

/// The explorer records which case the calling worker is executing, so that a process-level death
/// (non-unwinding panic such as a violated unsafe precondition, sanitizer abort) can still name it.
pub fn set_current_family(name: &str) {
    CUR_FAMILY.with(|f| {
        let mut f = f.borrow_mut();
        if *f != name {
            f.clear();
            f.push_str(name);
        }
    });
}
#[inline]
pub fn set_current_index(i: u64) {
    CUR_INDEX.with(|c| c.set(i));
}
pub fn current_case() -> String {
    let fam = CUR_FAMILY.with(|f| f.try_borrow().map(|s| s.clone()).unwrap_or_default());
    format!("{}:{}", fam, CUR_INDEX.with(|c| c.get()))
}

/// Installs a panic hook that records location + message of panics raised inside
/// `guard` (silently) and prints everything else (harness bugs) as usual.
pub fn install_quiet_hook() {
    if HOOK_INSTALLED.swap(true, Ordering::SeqCst) {
        return;
    }
    let default = panic::take_hook();
    panic::set_hook(Box::new(move |info| {
        let inside = IN_GUARD.with(|g| *g.borrow());
        {
            // "unsafe precondition(s) violated ..." and "panic in a function that cannot unwind" abort the
            // process right after the hook: name the case first (PanicInfo::can_unwind is not stable yet)
            let text = format!("{}", info);
            if text.contains("unsafe precondition") || text.contains("cannot unwind") {
                eprintln!("NON-UNWINDING-PANIC {}", text.replace('\n', " "));
                eprintln!("ABORT-CASE {}", current_case());
            }
        }
        if inside {
            let loc = info
                .location()
                .map(|l| format!("{}:{}", l.file(), l.line()))
                .unwrap_or_else(|| "?".to_string());
            let msg = if let Some(s) = info.payload().downcast_ref::<&str>() {
                s.to_string()
            } else if let Some(s) = info.payload().downcast_ref::<String>() {
                s.clone()
            } else {
                "<non-string panic payload>".to_string()
            };
            LAST_PANIC.with(|p| *p.borrow_mut() = Some(format!("{} @ {}", msg, loc)));
        } else {
            default(info);
        }
    }));
}

/// A captured panic of the subject.
#[derive(Clone, Debug, PartialEq, Eq)]
pub struct Panicked {
    pub message: String,
}

impl Panicked {
    /// File:line part, normalised so that it is usable in a signature
    /// (strips the directory part up to `src/`).
    pub fn site(&self) -> String {
        let at = self.message.rsplit(" @ ").next().unwrap_or("?");
        match at.find("src/") {
            Some(i) => at[i..].to_string(),
            None => at.to_string(),
        }
    }
}

/// Runs `f` (a call into the subject), capturing a panic as a value.
pub fn guard<T>(f: impl FnOnce() -> T) -> Result<T, Panicked> {
    install_quiet_hook();
    IN_GUARD.with(|g| *g.borrow_mut() = true);
    let r = panic::catch_unwind(AssertUnwindSafe(f));
    IN_GUARD.with(|g| *g.borrow_mut() = false);
    match r {
        Ok(v) => Ok(v),
        Err(_) => {
            let message =
                LAST_PANIC.with(|p| p.borrow_mut().take()).unwrap_or_else(|| "panic".to_string());
            Err(Panicked { message })
        }
    }
}

// ---------------------------------------------------------------------------
// Watchdog: every worker publishes (label, since) before a batch of subject
// calls; a monitor thread reports a worker that has not made progress for
// `limit` seconds as non-termination and ends the process with exit code 3.
// ---------------------------------------------------------------------------

struct Beat {
    label: Mutex<String>,
    stamp_ms: AtomicU64,
    active: AtomicBool,
}

static BEATS: OnceLock<Mutex<Vec<&'static Beat>>> = OnceLock::new();
static EPOCH: OnceLock<Instant> = OnceLock::new();

fn now_ms() -> u64 {
    EPOCH.get_or_init(Instant::now).elapsed().as_millis() as u64
}

thread_local! {
    static MY_BEAT: RefCell<Option<&'static Beat>> = const { RefCell::new(None) };
}

/// Publishes progress for the calling worker thread; call once per chunk of
/// cases (or per case when a case is expensive).
pub fn heartbeat(label: impl FnOnce() -> String) {
    MY_BEAT.with(|b| {
        let mut b = b.borrow_mut();
        if b.is_none() {
            let beat: &'static Beat = Box::leak(Box::new(Beat {
                label: Mutex::new(String::new()),
                stamp_ms: AtomicU64::new(now_ms()),
                active: AtomicBool::new(true),
            }));
            BEATS.get_or_init(|| Mutex::new(Vec::new())).lock().unwrap().push(beat);
            *b = Some(beat);
        }
        let beat = b.unwrap();
        beat.stamp_ms.store(now_ms(), Ordering::Relaxed);
        beat.active.store(true, Ordering::Relaxed);
        *beat.label.lock().unwrap() = label();
    });
}

/// Cheap progress tick (no label change): call every few cases inside a chunk, so that only a *single
/// subject call* that makes no progress for the whole limit is ever reported, however loaded the machine is.
#[inline]
pub fn tick() {
    MY_BEAT.with(|b| {
        if let Some(beat) = *b.borrow() {
            beat.stamp_ms.store(now_ms(), Ordering::Relaxed);
        }
    });
}

/// Marks the calling worker as idle (finished), so it is not reported.
pub fn heartbeat_done() {
    MY_BEAT.with(|b| {
        if let Some(beat) = *b.borrow() {
            beat.active.store(false, Ordering::Relaxed);
        }
    });
}

/// Starts the monitor. `on_stall(label)` is called once for the first stalled worker.
pub fn start_watchdog(limit: Duration, on_stall: impl Fn(String) + Send + 'static) {
    let _ = now_ms();
    std::thread::spawn(move || loop {
        std::thread::sleep(Duration::from_millis(500));
        let t = now_ms();
        if let Some(beats) = BEATS.get() {
            let beats = beats.lock().unwrap();
            for b in beats.iter() {
                if b.active.load(Ordering::Relaxed)
                    && t.saturating_sub(b.stamp_ms.load(Ordering::Relaxed)) > limit.as_millis() as u64
                {
                    let label = b.label.lock().unwrap().clone();
                    on_stall(label);
                    return;
                }
            }
        }
    });
}
