//! Explicit-state breadth-first search over *real objects* (shape E2).
//!
//! The subject objects are not `Clone`, so a state is stored as
//! (128-bit fingerprint of its canonical key, shortest witness history) and is
//! re-created by replaying the witness on a fresh object.  Every transition
//! executes the real code in lock-step with the reference model inside the
//! `step` closure supplied by the check.

use crate::guard;
use crate::json::Json;
use crate::par::Ctx;
use crate::report::{FamilyInfo, Fnv, FnvBuild, Report, Violation};
use std::collections::HashSet;
use std::hash::{Hash, Hasher};
use std::sync::atomic::{AtomicUsize, Ordering};
use std::sync::Mutex;

pub enum Step {
    /// Transition executed, implementation and model agree, invariants hold.
    Ok,
    /// Action not enabled in this state (not counted as a transition).
    Disabled,
    /// Oracle failure: (signature, what, case details).
    Violated(String, String, Json),
}

pub struct Spec<'a, S, K: Hash> {
    pub name: &'a str,
    pub description: &'a str,
    pub nacts: usize,
    pub max_depth: usize,
    pub fresh: &'a (dyn Fn() -> S + Sync),
    /// `step(state, action, check)`: applies the action to implementation and
    /// model.  With `check == false` (prefix replay) the oracle may be skipped.
    pub step: &'a (dyn Fn(&mut S, usize, bool) -> Step + Sync),
    pub key: &'a (dyn Fn(&S) -> K + Sync),
    /// Optional coarser projection of the state, *counted only* (never used for deduplication): lets a second
    /// engine that works on an abstraction of the state compare its state count with this search.
    pub project: Option<&'a (dyn Fn(&S) -> K + Sync)>,
    pub label: &'a (dyn Fn(usize) -> String + Sync),
}

#[derive(Clone, Debug, Default)]
pub struct Stats {
    pub states: u64,
    pub transitions: u64,
    pub max_depth: u64,
    pub closed: bool,
    pub dedup_hits: u64,
    pub per_depth: Vec<u64>,
    /// distinct values of the `project` function over all visited states (0 if there is no projection)
    pub projected_states: u64,
}

pub fn fingerprint<K: Hash>(k: &K) -> u128 {
    let mut a = Fnv(0xcbf29ce484222325);
    k.hash(&mut a);
    let mut b = Fnv(0x84222325cbf29ce4 ^ 0x5bd1e9955bd1e995);
    0xA5u8.hash(&mut b);
    k.hash(&mut b);
    ((a.finish() as u128) << 64) | b.finish() as u128
}

fn labels<S, K: Hash>(spec: &Spec<S, K>, h: &[u8]) -> Json {
    Json::Arr(h.iter().map(|&a| Json::from((spec.label)(a as usize))).collect())
}

/// Rebuilds the state reached by `h`; any non-Ok step is a machinery error.
fn rebuild<S, K: Hash>(spec: &Spec<S, K>, h: &[u8]) -> S {
    let mut s = (spec.fresh)();
    for (i, &a) in h.iter().enumerate() {
        match (spec.step)(&mut s, a as usize, false) {
            Step::Ok => {}
            _ => {
                eprintln!(
                    "MACHINERY: replay divergence in family {} at step {} of history {:?}",
                    spec.name, i, h
                );
                std::process::exit(2);
            }
        }
    }
    s
}

pub fn run<S, K: Hash>(ctx: &Ctx, rep: &mut Report, spec: Spec<S, K>) -> Stats {
    let mut st = Stats::default();
    if !ctx.family_selected(spec.name) {
        return st;
    }
    assert!(spec.nacts <= 255, "action table too large for u8 histories");
    if let Some((_, hist)) = &ctx.only_history {
        replay(ctx, rep, &spec, hist);
        return st;
    }
    if ctx.only.is_some() {
        return st;
    }

    let mut seen: HashSet<u128, FnvBuild> = HashSet::with_hasher(FnvBuild);
    let init = (spec.fresh)();
    let fp0 = fingerprint(&(spec.key)(&init));
    drop(init);
    seen.insert(fp0);
    let mut frontier: Vec<(Vec<u8>, u128)> = vec![(Vec::new(), fp0)];
    st.states = 1;
    st.per_depth.push(1);
    let mut depth = 0usize;
    let mut sample_hist: Vec<Vec<u8>> = Vec::new();

    // expansion of one frontier item: Vec<(action, fingerprint)> of Ok transitions + violations
    let mut projected: HashSet<u128, FnvBuild> = HashSet::with_hasher(FnvBuild);
    if let Some(pf) = spec.project {
        projected.insert(fingerprint(&pf(&(spec.fresh)())));
    }
    type Expansion = (Vec<(u8, u128, u128)>, Vec<(u8, String, String, Json)>);
    let expand = |h: &[u8], expect_fp: u128| -> Expansion {
        let mut oks = Vec::new();
        let mut bad = Vec::new();
        for a in 0..spec.nacts {
            let mut s = rebuild(&spec, h);
            if a == 0 {
                let fp = fingerprint(&(spec.key)(&s));
                if fp != expect_fp {
                    eprintln!(
                        "MACHINERY: replay of history {:?} in family {} reproduced a different state",
                        h, spec.name
                    );
                    std::process::exit(2);
                }
            }
            match (spec.step)(&mut s, a, true) {
                Step::Ok => oks.push((a as u8, fingerprint(&(spec.key)(&s)), spec.project.map(|pf| fingerprint(&pf(&s))).unwrap_or(0))),
                Step::Disabled => {}
                Step::Violated(sig, what, case) => bad.push((a as u8, sig, what, case)),
            }
        }
        (oks, bad)
    };

    loop {
        if frontier.is_empty() {
            st.closed = true;
            break;
        }
        if depth == spec.max_depth || crate::report::flooded() {
            st.closed = false;
            break;
        }
        // determinism guard on the first item of every level
        {
            let (h, fp) = &frontier[0];
            let a = expand(h, *fp);
            let b = expand(h, *fp);
            if a.0 != b.0 || a.1.len() != b.1.len() {
                eprintln!("MACHINERY: family {} expansion of {:?} is not deterministic", spec.name, h);
                std::process::exit(2);
            }
        }
        let n = frontier.len();
        let next = AtomicUsize::new(0);
        let chunk = (n / (ctx.threads * 8)).clamp(1, 256);
        let results: Mutex<Vec<(usize, Expansion)>> = Mutex::new(Vec::with_capacity(n));
        std::thread::scope(|sc| {
            for _ in 0..ctx.threads {
                sc.spawn(|| {
                    let mut local: Vec<(usize, Expansion)> = Vec::new();
                    loop {
                        let lo = next.fetch_add(chunk, Ordering::Relaxed);
                        if lo >= n {
                            break;
                        }
                        let hi = (lo + chunk).min(n);
                        guard::heartbeat(|| format!("{}:depth{}:{}..{}", spec.name, depth, lo, hi));
                        for i in lo..hi {
                            let (h, fp) = &frontier[i];
                            guard::tick();
                            local.push((i, expand(h, *fp)));
                        }
                    }
                    guard::heartbeat_done();
                    results.lock().unwrap().append(&mut local);
                });
            }
        });
        let mut results = results.into_inner().unwrap();
        results.sort_by_key(|r| r.0);
        let mut next_frontier: Vec<(Vec<u8>, u128)> = Vec::new();
        for (i, (oks, bad)) in results {
            let h = &frontier[i].0;
            for (a, fp, pfp) in oks {
                st.transitions += 1;
                if spec.project.is_some() {
                    projected.insert(pfp);
                }
                if seen.insert(fp) {
                    let mut nh = h.clone();
                    nh.push(a);
                    next_frontier.push((nh, fp));
                } else {
                    st.dedup_hits += 1;
                }
            }
            for (a, sig, what, case) in bad {
                st.transitions += 1;
                let mut nh = h.clone();
                nh.push(a);
                rep.violation(Violation {
                    signature: sig,
                    what,
                    family: spec.name.to_string(),
                    index: None,
                    history: Some(nh.iter().map(|&x| x as usize).collect()),
                    case: Json::obj().set("history", labels(&spec, &nh)).set("detail", case),
                });
            }
        }
        depth += 1;
        st.states += next_frontier.len() as u64;
        st.per_depth.push(next_frontier.len() as u64);
        if !next_frontier.is_empty() {
            st.max_depth = depth as u64;
            // keep a few witness histories as samples
            let k = (ctx.seed as usize).wrapping_mul(7919) % next_frontier.len();
            sample_hist.push(next_frontier[k].0.clone());
        }
        if ctx.verbose {
            eprintln!(
                "[{}] {} depth {}: +{} states (total {}), transitions {}",
                ctx.config,
                spec.name,
                depth,
                next_frontier.len(),
                st.states,
                st.transitions
            );
        }
        frontier = next_frontier;
    }

    st.projected_states = projected.len() as u64;
    rep.states += st.states;
    rep.transitions += st.transitions;
    rep.traces_validated += st.transitions;
    rep.evaluations += st.transitions;
    for h in sample_hist.iter().rev().take(4) {
        rep.sample(Json::obj().set("family", spec.name).set("history", labels(&spec, h)));
    }
    rep.families.push(FamilyInfo {
        name: spec.name.to_string(),
        description: spec.description.to_string(),
        evaluations: st.transitions,
        exhaustive: true,
        states: st.states,
        transitions: st.transitions,
        max_depth: st.max_depth,
        frontier_closed: Some(st.closed),
        dedup_hits: st.dedup_hits,
    });
    st
}

fn replay<S, K: Hash>(ctx: &Ctx, rep: &mut Report, spec: &Spec<S, K>, hist: &[usize]) {
    let mut fps: Vec<Vec<u128>> = Vec::new();
    for round in 0..2 {
        let mut s = (spec.fresh)();
        let mut f = Vec::new();
        for (i, &a) in hist.iter().enumerate() {
            let out = (spec.step)(&mut s, a, true);
            match out {
                Step::Ok => {
                    if round == 0 && ctx.verbose {
                        eprintln!("  step {} {}: ok", i, (spec.label)(a));
                    }
                }
                Step::Disabled => {
                    if round == 0 {
                        eprintln!("  step {} {}: disabled", i, (spec.label)(a));
                    }
                }
                Step::Violated(sig, what, case) => {
                    if round == 0 {
                        eprintln!("  step {} {}: VIOLATED {} — {}", i, (spec.label)(a), sig, what);
                        rep.violation(Violation {
                            signature: sig,
                            what,
                            family: spec.name.to_string(),
                            index: None,
                            history: Some(hist[..=i].to_vec()),
                            case,
                        });
                    }
                    break;
                }
            }
            f.push(fingerprint(&(spec.key)(&s)));
        }
        fps.push(f);
    }
    if fps[0] != fps[1] {
        eprintln!("MACHINERY: replay of history in {} is not deterministic", spec.name);
        std::process::exit(2);
    }
    rep.evaluations += hist.len() as u64;
}
