//! What one run covered and what it found.  Reports are per-thread and merged.

use crate::json::Json;
use std::collections::{BTreeMap, HashSet};
use std::hash::{Hash, Hasher};

#[derive(Clone, Debug)]
pub struct Violation {
    /// Stable identification of *what kind* of failure this is; known findings
    /// are matched on it (exact match).
    pub signature: String,
    /// One-line human description: expected vs observed.
    pub what: String,
    /// Enumeration family the case came from.
    pub family: String,
    /// Index of the case inside the family (random access), if any.
    pub index: Option<u64>,
    /// Action history (indices into the family's action table) for state-space families.
    pub history: Option<Vec<usize>>,
    /// The concrete case, written out.
    pub case: Json,
}

impl Violation {
    pub fn to_json(&self) -> Json {
        Json::obj()
            .set("signature", &self.signature)
            .set("what", &self.what)
            .set("family", &self.family)
            .set("index", self.index)
            .set(
                "history",
                match &self.history {
                    Some(h) => Json::Arr(h.iter().map(|&x| Json::from(x)).collect()),
                    None => Json::Null,
                },
            )
            .set("case", self.case.clone())
    }
}

#[derive(Clone, Debug, Default)]
pub struct FamilyInfo {
    pub name: String,
    pub description: String,
    pub evaluations: u64,
    pub exhaustive: bool,
    pub states: u64,
    pub transitions: u64,
    pub max_depth: u64,
    pub frontier_closed: Option<bool>,
    pub dedup_hits: u64,
}

pub const MAX_VIOLATIONS_PER_SIGNATURE: usize = 3;

/// Process-wide count of violations recorded so far. Once it exceeds `FLOOD_LIMIT` the enumerating
/// families stop early: the verdict (violation) is settled, and a broken tree must not turn a quick check
/// into an hour-long one. The evidence then says that the enumeration was cut short.
pub static VIOLATIONS_SEEN: std::sync::atomic::AtomicU64 = std::sync::atomic::AtomicU64::new(0);
pub const FLOOD_LIMIT: u64 = 20_000;
/// Signatures listed as known findings do not count towards the flood limit (they are expected on the
/// unchanged tree and must not shorten the exploration).
pub static KNOWN_SIGNATURES: std::sync::OnceLock<Vec<String>> = std::sync::OnceLock::new();
pub fn flooded() -> bool {
    VIOLATIONS_SEEN.load(std::sync::atomic::Ordering::Relaxed) > FLOOD_LIMIT
}
pub const MAX_SAMPLES: usize = 24;

#[derive(Clone, Debug, Default)]
pub struct Report {
    pub evaluations: u64,
    pub states: u64,
    pub transitions: u64,
    pub traces_validated: u64,
    pub hist: BTreeMap<String, u64>,
    pub buckets: HashSet<u64>,
    /// Fingerprints of distinct subject states visited by E1/E3-style families that drive a
    /// stateful object (each exchange is a transition); BFS families count in `states` directly.
    pub state_set: HashSet<u64>,
    pub samples: Vec<Json>,
    pub violations: Vec<Violation>,
    pub violation_count: u64,
    pub sig_counts: BTreeMap<String, u64>,
    pub families: Vec<FamilyInfo>,
    pub notes: Vec<(String, Json)>,
    pub assumptions: Vec<String>,
}

pub fn hash_of<T: Hash>(t: &T) -> u64 {
    let mut h = Fnv(0xcbf29ce484222325);
    t.hash(&mut h);
    h.finish()
}

/// FNV-1a: deterministic across runs and platforms (std's SipHash with fixed
/// keys would be too, but this makes the independence from RandomState obvious).
pub struct Fnv(pub u64);
impl Hasher for Fnv {
    fn finish(&self) -> u64 {
        self.0
    }
    fn write(&mut self, bytes: &[u8]) {
        for b in bytes {
            self.0 ^= *b as u64;
            self.0 = self.0.wrapping_mul(0x100000001b3);
        }
    }
}
#[derive(Clone, Default)]
pub struct FnvBuild;
impl std::hash::BuildHasher for FnvBuild {
    type Hasher = Fnv;
    fn build_hasher(&self) -> Fnv {
        Fnv(0xcbf29ce484222325)
    }
}

impl Report {
    pub fn new() -> Report {
        Report::default()
    }
    #[inline]
    pub fn count(&mut self, class: &str) {
        if let Some(c) = self.hist.get_mut(class) {
            *c += 1;
        } else {
            self.hist.insert(class.to_string(), 1);
        }
    }
    #[inline]
    pub fn count_n(&mut self, class: &str, n: u64) {
        *self.hist.entry(class.to_string()).or_insert(0) += n;
    }
    #[inline]
    pub fn bucket<T: Hash>(&mut self, t: &T) {
        self.buckets.insert(hash_of(t));
    }
    /// Records one executed transition of a stateful subject and the state it led to.
    #[inline]
    pub fn visit<T: Hash>(&mut self, state: &T) {
        self.transitions += 1;
        self.traces_validated += 1;
        self.state_set.insert(hash_of(state));
    }
    pub fn sample(&mut self, j: Json) {
        if self.samples.len() < MAX_SAMPLES {
            self.samples.push(j);
        }
    }
    pub fn note(&mut self, k: &str, v: impl Into<Json>) {
        let v = v.into();
        if let Some(e) = self.notes.iter_mut().find(|(kk, _)| kk == k) {
            e.1 = v;
        } else {
            self.notes.push((k.to_string(), v));
        }
    }
    pub fn assume(&mut self, s: &str) {
        if !self.assumptions.iter().any(|a| a == s) {
            self.assumptions.push(s.to_string());
        }
    }
    pub fn violation(&mut self, v: Violation) {
        if !KNOWN_SIGNATURES.get().map(|k| k.iter().any(|s| *s == v.signature)).unwrap_or(false) {
            VIOLATIONS_SEEN.fetch_add(1, std::sync::atomic::Ordering::Relaxed);
        }
        self.violation_count += 1;
        let c = self.sig_counts.entry(v.signature.clone()).or_insert(0);
        *c += 1;
        if (*c as usize) <= MAX_VIOLATIONS_PER_SIGNATURE {
            self.violations.push(v);
        }
    }
    pub fn merge(&mut self, o: Report) {
        self.evaluations += o.evaluations;
        self.states += o.states;
        self.transitions += o.transitions;
        self.traces_validated += o.traces_validated;
        for (k, v) in o.hist {
            *self.hist.entry(k).or_insert(0) += v;
        }
        self.buckets.extend(o.buckets);
        self.state_set.extend(o.state_set);
        for s in o.samples {
            if self.samples.len() < MAX_SAMPLES {
                self.samples.push(s);
            }
        }
        self.violation_count += o.violation_count;
        for (k, v) in o.sig_counts {
            *self.sig_counts.entry(k).or_insert(0) += v;
        }
        for v in o.violations {
            let kept = self.violations.iter().filter(|x| x.signature == v.signature).count();
            if kept < MAX_VIOLATIONS_PER_SIGNATURE {
                self.violations.push(v);
            }
        }
        self.families.extend(o.families);
        for (k, v) in o.notes {
            self.note(&k, v);
        }
        for a in o.assumptions {
            self.assume(&a);
        }
    }
    /// Digest of the deterministic part (used by the run-twice determinism guard).
    pub fn digest(&self) -> u64 {
        let mut h = Fnv(0xcbf29ce484222325);
        self.evaluations.hash(&mut h);
        self.states.hash(&mut h);
        self.transitions.hash(&mut h);
        for (k, v) in &self.hist {
            k.hash(&mut h);
            v.hash(&mut h);
        }
        let mut b: Vec<u64> = self.buckets.iter().copied().collect();
        b.sort();
        b.hash(&mut h);
        let mut st: Vec<u64> = self.state_set.iter().copied().collect();
        st.sort();
        st.hash(&mut h);
        self.violation_count.hash(&mut h);
        h.finish()
    }
    pub fn to_json(&self) -> Json {
        let mut fams = Vec::new();
        for f in &self.families {
            fams.push(
                Json::obj()
                    .set("name", &f.name)
                    .set("description", &f.description)
                    .set("evaluations", f.evaluations)
                    .set("exhaustive", f.exhaustive)
                    .set("states", f.states)
                    .set("transitions", f.transitions)
                    .set("max_depth", f.max_depth)
                    .set("frontier_closed", f.frontier_closed)
                    .set("dedup_hits", f.dedup_hits),
            );
        }
        let mut notes = Json::obj();
        for (k, v) in &self.notes {
            notes.put(k, v.clone());
        }
        Json::obj()
            .set("evaluations", self.evaluations)
            .set("states", self.states + self.state_set.len() as u64)
            .set("transitions", self.transitions)
            .set("traces_validated_against_impl", self.traces_validated)
            .set("distinct_buckets", self.buckets.len())
            .set(
                "histogram",
                Json::Obj(self.hist.iter().map(|(k, v)| (k.clone(), Json::from(*v))).collect()),
            )
            .set("samples", Json::Arr(self.samples.clone()))
            .set("violation_count", self.violation_count)
            .set(
                "signature_counts",
                Json::Obj(self.sig_counts.iter().map(|(k, v)| (k.clone(), Json::from(*v))).collect()),
            )
            .set("violations", Json::Arr(self.violations.iter().map(|v| v.to_json()).collect()))
            .set("families", Json::Arr(fams))
            .set("notes", notes)
            .set(
                "assumptions",
                Json::Arr(self.assumptions.iter().map(|a| Json::from(a.as_str())).collect()),
            )
    }
}
