//! Cross-engine guard for C14/C15 (thorough tier): enumerate the reachable states of the
//! Observe *reference model* with stateright - breadth-first, then depth-first - and print the
//! unique state counts.  The runner compares them with the number of canonical states the
//! real-code search visited.  Never the deciding step: a mismatch is a machinery failure.
//!
//! usage: xcheck <limit> <mode: 0 default | 1 three endpoints, one path | 2 three paths>

use refmodel::subject::{alphabet_mode, RefSubject, SubjectAct};
use stateright::{Checker, Model, Property};

struct ObserveModel {
    limit: u64,
    acts: Vec<SubjectAct>,
}

impl Model for ObserveModel {
    type State = RefSubject;
    type Action = usize;

    fn init_states(&self) -> Vec<RefSubject> {
        vec![RefSubject::new(self.limit)]
    }
    fn actions(&self, _s: &RefSubject, out: &mut Vec<usize>) {
        out.extend(0..self.acts.len());
    }
    fn next_state(&self, s: &RefSubject, a: usize) -> Option<RefSubject> {
        let mut n = s.clone();
        n.apply(&self.acts[a]);
        Some(n.canonical())
    }
    fn properties(&self) -> Vec<Property<Self>> {
        vec![
            Property::always("at most one observer per endpoint per resource", |_, s: &RefSubject| {
                s.resources.values().all(|r| {
                    let mut e: Vec<u32> = r.observers.iter().map(|o| o.endpoint).collect();
                    e.sort();
                    let n = e.len();
                    e.dedup();
                    e.len() == n
                })
            }),
            Property::always("no observer beyond the limit survives", |m: &ObserveModel, s: &RefSubject| {
                s.resources.values().all(|r| r.observers.iter().all(|o| o.unacked <= m.limit))
            }),
        ]
    }
}

fn main() {
    let args: Vec<String> = std::env::args().collect();
    let limit: u64 = args.get(1).and_then(|x| x.parse().ok()).unwrap_or(0);
    let mode: u8 = args.get(2).and_then(|x| x.parse().ok()).unwrap_or(0);
    let threads = std::thread::available_parallelism().map(|n| n.get()).unwrap_or(4);
    let bfs = ObserveModel { limit, acts: alphabet_mode(mode) }.checker().threads(threads).spawn_bfs().join();
    let dfs = ObserveModel { limit, acts: alphabet_mode(mode) }.checker().threads(threads).spawn_dfs().join();
    let ok = bfs.discoveries().is_empty() && dfs.discoveries().is_empty();
    println!(
        "{{\"limit\":{},\"mode\":{},\"actions\":{},\"bfs_unique_states\":{},\"dfs_unique_states\":{},\"properties_hold\":{}}}",
        limit,
        mode,
        alphabet_mode(mode).len(),
        bfs.unique_state_count(),
        dfs.unique_state_count(),
        ok
    );
}
