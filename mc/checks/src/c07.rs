//! C07 — prepared responses are correlated with their request.

use crate::common::{msg_json, pattern, to_ref, u8_to_mtype};
use coap_lite::error::HandlingError;
use coap_lite::{CoapOption, CoapRequest, CoapResponse, ContentFormat, MessageClass, Packet, ResponseType};
use mccore::{decode, guard, product, viol, Ctx, Json, Report};
use refmodel::codec::{self, RefMsg};

fn request_packet(ver: u8, t: u8, tkl: usize, mid: u16, body: u8) -> Packet {
    let mut p = Packet::new();
    p.header.set_version(ver);
    p.header.set_type(u8_to_mtype(t));
    p.header.message_id = mid;
    p.set_token(pattern(tkl, (mid as u8).wrapping_add(t)));
    match body {
        0 => {}
        1 => {
            p.header.code = MessageClass::from(0x02);
            p.add_option(CoapOption::UriPath, b"res".to_vec());
            p.add_option(CoapOption::ContentFormat, vec![50]);
            p.payload = b"request body".to_vec();
        }
        2 => {
            p.header.code = MessageClass::from(0x00);
        }
        _ => {
            p.header.code = MessageClass::from(0x45); // a response sent as a "request"
            p.add_option(CoapOption::Observe, vec![1]);
            p.add_option(CoapOption::Block2, vec![0x0E]);
            p.payload = vec![0xFF; 20];
        }
    }
    p
}

fn expected_reply(req: &Packet) -> Option<RefMsg> {
    let r = to_ref(req);
    let mtype = match r.mtype {
        0 => 2,
        1 => 1,
        _ => return None,
    };
    Some(RefMsg { version: 1, mtype, token: r.token.clone(), code: 0x45, mid: r.mid, options: vec![], payload: vec![] })
}

fn check_reply(fam: &str, i: u64, how: &str, req: &Packet, got: Option<&Packet>, rep: &mut Report) -> bool {
    let expect = expected_reply(req);
    let case = || Json::obj().set("request", msg_json(&to_ref(req))).set("via", how);
    match (expect, got) {
        (None, None) => {
            rep.count("no-response-for-ack-rst");
            true
        }
        (None, Some(p)) => {
            rep.violation(viol(fam, i, "C07/response-prepared-for-ack-or-rst", format!("{}: a response was prepared: {:?}", how, to_ref(p)), case()));
            false
        }
        (Some(_), None) if !(1..=31).contains(&to_ref(req).code) => {
            // the statement quantifies over request messages: a message whose code is 0.00 or a response code is not
            // one, and an implementation may decline to prepare a response for it
            rep.count("no-response-for-a-non-request-code-(permitted)");
            true
        }
        (Some(_), None) => {
            rep.violation(viol(fam, i, "C07/no-response-for-con-or-non", format!("{}: no response prepared", how), case()));
            false
        }
        (Some(e), Some(p)) => {
            let g = to_ref(p);
            if g != e {
                let field = if g.mtype != e.mtype {
                    "type"
                } else if g.mid != e.mid {
                    "message-id"
                } else if g.token != e.token {
                    "token"
                } else if g.version != e.version {
                    "version"
                } else if g.code != e.code {
                    "code"
                } else if g.options != e.options {
                    "options"
                } else {
                    "payload"
                };
                rep.violation(viol(
                    fam,
                    i,
                    format!("C07/reply-field-{}", field),
                    format!("{}: {}", how, crate::c01::describe_diff(&g, &e)),
                    case().set("reply", msg_json(&g)),
                ));
                return false;
            }
            // encoded reply == reference wire image
            let wire = guard(|| p.to_bytes());
            if wire.as_ref().ok().and_then(|w| w.as_ref().ok()) != Some(&codec::enc(&e).unwrap()) {
                rep.violation(viol(fam, i, "C07/reply-wire-image", format!("{}: encoded reply differs from the reference image", how), case()));
                return false;
            }
            rep.count("reply-correlated");
            true
        }
    }
}

pub fn run(ctx: &Ctx, rep: &mut Report) {
    // ---- the stated product in full
    {
        let radices = [4u64, 4, 9, 65536];
        let n = product(&radices);
        ctx.family(
            rep,
            "correlation-product",
            "4 types x 4 versions x token length 0..=8 x all 65536 message ids (request body variant chosen by the id); CoapResponse::new and CoapRequest::from_packet",
            n,
            true,
            |i, rep| {
                let d = decode(i, &radices);
                let (t, ver, tkl, mid) = (d[0] as u8, d[1] as u8, d[2] as usize, d[3] as u16);
                let body = (mid % 4) as u8;
                let req = request_packet(ver, t, tkl, mid, body);
                let r = guard(|| {
                    let a = CoapResponse::new(&req).map(|r| r.message);
                    let b = CoapRequest::from_packet(req.clone(), 7u32);
                    (a, b)
                });
                match r {
                    Err(pn) => rep.violation(viol("correlation-product", i, format!("C07/panic@{}", pn.site()), pn.message, msg_json(&to_ref(&req)))),
                    Ok((a, b)) => {
                        let ok1 = check_reply("correlation-product", i, "CoapResponse::new", &req, a.as_ref(), rep);
                        let ok2 = check_reply("correlation-product", i, "CoapRequest::from_packet", &req, b.response.as_ref().map(|r| &r.message), rep);
                        if b.message != req || b.source != Some(7u32) {
                            rep.violation(viol(
                                "correlation-product",
                                i,
                                "C07/from_packet-altered-request",
                                "from_packet did not keep the request message / source",
                                msg_json(&to_ref(&req)),
                            ));
                        } else if ok1 && ok2 {
                            rep.bucket(&(t, ver, tkl, body, mid == 0, mid == 0xFFFF));
                        }
                    }
                }
                if ctx.want_sample(i, n) {
                    rep.sample(Json::obj().set("family", "correlation-product").set("index", i).set("request", msg_json(&to_ref(&req))));
                }
            },
        );
    }
    // ---- request options: a response is prepared whatever options the request carries
    {
        let nums: Vec<u16> = refmodel::registries::OPTIONS.iter().map(|o| o.0).chain([0u16, 2, 10, 259, 2049, 65000, 65535]).collect();
        let radices = [nums.len() as u64, 258, 2];
        let n = product(&radices);
        ctx.family(
            rep,
            "request-options",
            "CON/NON request carrying one option: every registered option number (and 7 unregistered ones) x value {absent value = empty, every single byte 0..255, a 300-byte value}: the reply is prepared and correlated as always",
            n,
            true,
            |i, rep| {
                let d = decode(i, &radices);
                let num = nums[d[0] as usize];
                let val: Vec<u8> = match d[1] {
                    0 => vec![],
                    257 => pattern(300, 9),
                    b => vec![(b - 1) as u8],
                };
                let mut req = request_packet(1, d[2] as u8, 3, 0x4242, 0);
                req.add_option(CoapOption::from(num), val);
                let r = guard(|| {
                    let a = CoapResponse::new(&req).map(|r| r.message);
                    let b = CoapRequest::from_packet(req.clone(), 3u32);
                    (a, b)
                });
                match r {
                    Err(pn) => rep.violation(viol("request-options", i, format!("C07/panic@{}", pn.site()), pn.message, msg_json(&to_ref(&req)))),
                    Ok((a, b)) => {
                        let ok1 = check_reply("request-options", i, "CoapResponse::new", &req, a.as_ref(), rep);
                        let ok2 = check_reply("request-options", i, "CoapRequest::from_packet", &req, b.response.as_ref().map(|r| &r.message), rep);
                        if ok1 && ok2 {
                            rep.bucket(&("ropt", num, d[1].min(2), d[2]));
                        }
                    }
                }
            },
        );
    }
    // ---- every option number, every request code, every code x type: the preparation rule looks at the type only
    {
        let radices = [65536u64, 2, 3];
        let n = product(&radices);
        ctx.family(
            rep,
            "request-every-option-number",
            "CON/NON request carrying option number 0..=65535 (every value) with {no value, one byte, 14 bytes}, alone or next to Uri-Path: the reply is prepared and correlated as always",
            n,
            true,
            |i, rep| {
                let d = decode(i, &radices);
                let num = d[0] as u16;
                let val: Vec<u8> = match d[2] {
                    0 => vec![],
                    1 => vec![num as u8],
                    _ => pattern(14, num as u8),
                };
                let mut req = request_packet(1, d[1] as u8, (num % 9) as usize, num ^ 0x5A5A, 0);
                if num & 1 == 1 {
                    req.add_option(CoapOption::UriPath, b"p".to_vec());
                }
                req.add_option(CoapOption::from(num), val);
                let r = guard(|| {
                    let a = CoapResponse::new(&req).map(|r| r.message);
                    let b = CoapRequest::from_packet(req.clone(), 3u32);
                    (a, b)
                });
                match r {
                    Err(pn) => rep.violation(viol("request-every-option-number", i, format!("C07/panic@{}", pn.site()), pn.message, msg_json(&to_ref(&req)))),
                    Ok((a, b)) => {
                        let ok1 = check_reply("request-every-option-number", i, "CoapResponse::new", &req, a.as_ref(), rep);
                        let ok2 = check_reply("request-every-option-number", i, "CoapRequest::from_packet", &req, b.response.as_ref().map(|r| &r.message), rep);
                        if ok1 && ok2 {
                            rep.bucket(&("ropt-all", num >> 12, d[1], d[2]));
                        }
                    }
                }
            },
        );
        let radices = [256u64, 4, 2];
        let n = product(&radices);
        ctx.family(
            rep,
            "request-every-code",
            "a message with every code byte 0..=255 (requests, responses, empty, reserved) x every type x {bare, with options and payload}: prepared iff CON or NON, correlated as always",
            n,
            true,
            |i, rep| {
                let d = decode(i, &radices);
                let mut req = request_packet(1, d[1] as u8, 4, 0x1000 + d[0] as u16, 0);
                req.header.code = coap_lite::MessageClass::from(d[0] as u8);
                if d[2] == 1 {
                    req.add_option(CoapOption::UriPath, b"x".to_vec());
                    req.add_option(CoapOption::from(2049u16), vec![1, 2, 3]);
                    req.payload = vec![0xFF, 1, 2];
                }
                let r = guard(|| {
                    let a = CoapResponse::new(&req).map(|r| r.message);
                    let b = CoapRequest::from_packet(req.clone(), 3u32);
                    (a, b)
                });
                match r {
                    Err(pn) => rep.violation(viol("request-every-code", i, format!("C07/panic@{}", pn.site()), pn.message, msg_json(&to_ref(&req)))),
                    Ok((a, b)) => {
                        let ok1 = check_reply("request-every-code", i, "CoapResponse::new", &req, a.as_ref(), rep);
                        let ok2 = check_reply("request-every-code", i, "CoapRequest::from_packet", &req, b.response.as_ref().map(|r| &r.message), rep);
                        if ok1 && ok2 {
                            rep.bucket(&("rcode", d[0] >> 5, d[1], d[2]));
                        }
                    }
                }
            },
        );
    }
    // ---- apply_from_error: every ResponseType and None x messages x response shapes
    {
        let codes: Vec<Option<u8>> = std::iter::once(None)
            .chain(refmodel::registries::RESPONSES.iter().map(|r| Some(refmodel::registries::response_byte(r.0, r.1))))
            .chain(std::iter::once(Some(0xFFu8))) // ResponseType::UnKnown
            .collect();
        let messages: Vec<String> = vec!["".into(), "x".into(), "é😁 not found".into(), "m".repeat(2000)];
        // response shapes: 0 absent (ACK request), 1 fresh, 2 with options, 3 with a content format, 4 with a payload, 5 content format + payload + options
        let radices = [codes.len() as u64, messages.len() as u64, 6, 2];
        let n = product(&radices);
        ctx.family(
            rep,
            "apply-from-error",
            "every response code (and none) x diagnostic message {empty, 1 byte, multi-byte UTF-8, 2000 bytes} x prepared response {absent, fresh, with options, with a content format, with a payload, all of them} x request type {CON, NON}",
            n,
            true,
            |i, rep| {
                let d = decode(i, &radices);
                let code = codes[d[0] as usize];
                let msg = &messages[d[1] as usize];
                let shape = d[2];
                let t = if shape == 0 { 2 } else { d[3] as u8 };
                let req = request_packet(1, t, 4, 0x1234, 1);
                let case = || Json::obj().set("code", code.map(refmodel::registries::dotted)).set("message_len", msg.len()).set("response_shape", shape).set("request_type", t);
                let r = guard(|| {
                    let mut cr = CoapRequest::from_packet(req.clone(), 1u8);
                    if let Some(resp) = cr.response.as_mut() {
                        if shape == 2 || shape == 5 {
                            resp.message.add_option(CoapOption::ETag, vec![1, 2, 3]);
                            resp.message.add_option(CoapOption::LocationPath, b"a".to_vec());
                            resp.message.add_option(CoapOption::LocationPath, b"b".to_vec());
                        }
                        if shape == 3 || shape == 5 {
                            resp.message.set_content_format(ContentFormat::ApplicationJSON);
                        }
                        if shape == 4 || shape == 5 {
                            resp.message.payload = b"prior payload".to_vec();
                        }
                    }
                    let before = cr.clone();
                    // (through the constructors, not a struct literal: the error type may grow fields)
                    let err = match code.map(|b| match MessageClass::from(b) {
                        MessageClass::Response(rt) => rt,
                        _ => ResponseType::UnKnown,
                    }) {
                        Some(rt) => HandlingError::with_code(rt, msg.clone()),
                        None => {
                            let mut e = HandlingError::not_handled();
                            e.message = msg.clone();
                            e
                        }
                    };
                    let applied = cr.apply_from_error(err);
                    (before, cr, applied)
                });
                match r {
                    Err(pn) => rep.violation(viol("apply-from-error", i, format!("C07/panic@{}", pn.site()), pn.message, case())),
                    Ok((before, after, applied)) => {
                        let should = before.response.is_some() && code.is_some();
                        if applied != should {
                            rep.violation(viol(
                                "apply-from-error",
                                i,
                                "C07/apply_from_error-result",
                                format!("returned {} but response present = {}, code present = {}", applied, before.response.is_some(), code.is_some()),
                                case(),
                            ));
                            return;
                        }
                        if after.message != before.message || after.source != before.source {
                            rep.violation(viol("apply-from-error", i, "C07/apply_from_error-touched-request", "request message or source changed", case()));
                            return;
                        }
                        if !applied {
                            if after.response != before.response {
                                rep.violation(viol("apply-from-error", i, "C07/apply_from_error-changed-on-failure", "returned false but the response changed", case()));
                            } else {
                                rep.count("not-applied-nothing-changed");
                                rep.bucket(&("noop", code.is_some(), shape == 0));
                            }
                            return;
                        }
                        let b = to_ref(&before.response.as_ref().unwrap().message);
                        let a = to_ref(&after.response.as_ref().unwrap().message);
                        let strip = |m: &RefMsg| -> Vec<(u32, Vec<u8>)> { m.options.iter().filter(|o| o.0 != 12).cloned().collect() };
                        let cf: Vec<&Vec<u8>> = a.options.iter().filter(|o| o.0 == 12).map(|o| &o.1).collect();
                        let mut bad = None;
                        if (a.version, a.mtype, a.mid, &a.token) != (b.version, b.mtype, b.mid, &b.token) {
                            bad = Some("correlation fields changed");
                        } else if strip(&a) != strip(&b) {
                            bad = Some("options other than Content-Format changed");
                        } else if a.code != code.unwrap() {
                            bad = Some("code is not the error's code");
                        } else if a.payload != msg.as_bytes() {
                            bad = Some("payload is not the diagnostic message");
                        }
                        // observation only (the statement does not fix the resulting content format)
                        if cf.first().map(|v| v.as_slice()) == Some(&[][..]) {
                            rep.count("diagnostic-reply-reads-text-plain");
                        } else {
                            rep.count("diagnostic-reply-keeps-an-earlier-content-format-first");
                        }
                        match bad {
                            Some(w) => rep.violation(viol(
                                "apply-from-error",
                                i,
                                format!("C07/apply_from_error-{}", w.replace(' ', "-")),
                                format!("{}: before {:?} after {:?}", w, msg_json(&b).to_string(), msg_json(&a).to_string()),
                                case(),
                            )),
                            None => {
                                rep.count("error-applied");
                                rep.bucket(&("applied", code, shape, msg.len().min(3)));
                            }
                        }
                    }
                }
            },
        );
    }
    rep.assume("the statement allows the Content-Format option to change in any way; everything else except code and payload must be untouched");
}
