//! C20 — cached block-transfer state lives exactly as long as configured.
//!
//! The clock is an environment action owned by the harness (lru_time_cache's own
//! `sn_fake_clock` seam, DESIGN.md 2.6): explicit-state search over
//! request / tick sequences (E2), plus linear retention and reclamation
//! families (E1).  A few real-clock runs (configuration `realclock`) tie the
//! fake-clock build back to the production clock.

use crate::blockwise::*;
use mccore::bfs::{self, Step};
use mccore::{viol, Ctx, Json, Report};
use std::collections::BTreeMap;
use std::time::Duration;

const T: u64 = 1000;
const BUDGET: usize = 40; // 16-byte blocks
const NBLK: usize = 5; // 4 x 16 + 8 bytes

fn dbody(parity: u8) -> Vec<u8> {
    (0..72usize).map(|i| (i as u8).wrapping_mul(3) ^ if parity == 0 { 0x00 } else { 0xFF }).collect()
}
fn ubody() -> Vec<u8> {
    (0..72usize).map(|i| 0x80 | ((i * 7) % 128) as u8).collect()
}

#[derive(Clone, Debug)]
enum Act {
    Next,     // next request of the transfer under test on key K
    OtherGet, // plain GET on key K1 (other path)
    OtherPut, // PUT Block1 0/more on key K2 (other endpoint)
    Tick(u64),
}

fn acts() -> Vec<Act> {
    vec![Act::Next, Act::OtherGet, Act::OtherPut, Act::Tick(333), Act::Tick(499), Act::Tick(1001)]
}

#[derive(Clone, Debug, Hash, PartialEq, Eq)]
struct Model {
    t: u64, // expiry in ms (constant within one search)
    now: u64,
    last: BTreeMap<u8, u64>, // key id -> last touch
    // download under test: Some((parity of the cached body, next block))
    dl: Option<(u8, u32)>,
    app_parity: u8,
    // upload under test
    ul_next: u32,
    ul_covered: [bool; NBLK],
}

struct St {
    srv: Server,
    base_live: i64,
    per_entry: i64,
    m: Model,
    upload: bool,
    mid: u16,
}

fn fresh(upload: bool) -> St {
    fresh_with(upload, T)
}

fn fresh_with(upload: bool, t: u64) -> St {
    let per_entry = clones_per_entry();
    clock::reset();
    let base_live = Ep::live();
    St {
        per_entry,
        srv: Server::new(BUDGET, Duration::from_millis(t)),
        base_live,
        m: Model { t, now: 0, last: BTreeMap::new(), dl: None, app_parity: 0, ul_next: 0, ul_covered: [false; NBLK] },
        upload,
        mid: 1,
    }
}

fn alive(m: &Model, k: u8) -> bool {
    m.last.get(&k).map(|t| m.now - t < m.t).unwrap_or(false)
}

/// How many clones of its key one cache entry holds (2 with lru_time_cache: map key + recency list), measured on
/// the implementation itself so that a different container does not confuse the count. 0 = not observable.
fn clones_per_entry() -> i64 {
    clock::reset();
    let base = Ep::live();
    let mut srv = Server::new(BUDGET, Duration::from_millis(T));
    srv.exchange(77, &request_bytes(0, 3, 1, &[1], &["calib"], &[], Some((0, true, 0)), None, &[1; 16]), &|_c| AppReply { code: 0x44, options: vec![], payload: vec![] });
    let n = Ep::live() - base;
    drop(srv);
    n
}

fn reclaim_check(st: &St) -> Result<(), (String, String)> {
    let per = st.per_entry;
    if per == 0 {
        return Ok(());
    }
    let physical = (Ep::live() - st.base_live) as f64 / per as f64;
    let expected = st.m.last.iter().filter(|(_, t)| st.m.now - **t < st.m.t).count() as f64;
    // fewer is fine (an implementation may drop the state of a completed transfer at once); more means that
    // expired state survived a use of the handler
    if physical > expected {
        return Err((
            "C20/expired-entries-not-reclaimed".into(),
            format!("after a handler call at t={} the cache physically holds {} entries, {} are within their lifetime", st.m.now, physical, expected),
        ));
    }
    Ok(())
}

fn step(st: &mut St, a: &Act) -> Result<(), (String, String)> {
    let app_parity = st.m.app_parity;
    let app = move |call: &AppCall| -> AppReply {
        let path: Vec<&[u8]> = call.request.options.iter().filter(|o| o.0 == 11).map(|o| &o.1[..]).collect();
        if path == [b"k"] && call.request.code == 1 {
            AppReply { code: 0x45, options: vec![], payload: dbody(app_parity) }
        } else if call.request.code == 1 {
            AppReply { code: 0x45, options: vec![], payload: vec![0x5A; 100] }
        } else {
            AppReply { code: 0x44, options: vec![], payload: vec![] }
        }
    };
    // constant message id/token: a cached response embeds them, and the state key must not grow with the history
    st.mid = 0x4321;
    let token = [0x20, 0x21];
    match a {
        Act::Tick(d) => {
            clock::advance(*d);
            st.m.now += d;
            Ok(())
        }
        Act::OtherGet => {
            let x = st.srv.exchange(1, &request_bytes(0, 1, st.mid, &token, &["other"], &[], None, None, &[]), &app);
            if let Some((s, pn)) = &x.panic {
                return Err((format!("C20/panic@{}", pn.site()), format!("{:?}: {}", s, pn.message)));
            }
            st.m.last.insert(1, st.m.now);
            reclaim_check(st)
        }
        Act::OtherPut => {
            let x = st.srv.exchange(2, &request_bytes(0, 3, st.mid, &token, &["k"], &[], Some((0, true, 0)), None, &[0xEE; 16]), &app);
            if let Some((s, pn)) = &x.panic {
                return Err((format!("C20/panic@{}", pn.site()), format!("{:?}: {}", s, pn.message)));
            }
            st.m.last.insert(2, st.m.now);
            reclaim_check(st)
        }
        Act::Next if !st.upload => {
            let was_alive = alive(&st.m, 0);
            let idle = st.m.last.get(&0).map(|t| st.m.now - t);
            let req = match st.m.dl {
                Some((_, next)) => request_bytes(0, 1, st.mid, &token, &["k"], &[], None, Some((next, false, 0)), &[]),
                None => request_bytes(0, 1, st.mid, &token, &["k"], &[], None, None, &[]),
            };
            let x = st.srv.exchange(1, &req, &app);
            if let Some((s, pn)) = &x.panic {
                return Err((format!("C20/panic@{}", pn.site()), format!("{:?}: {}", s, pn.message)));
            }
            let reply = x.reply.as_deref().and_then(parse_reply).ok_or(("C20/no-reply".to_string(), "no reply".to_string()))?;
            let b2 = block_opt(&reply, 23);
            match st.m.dl {
                Some((parity, next)) if was_alive => {
                    // within its lifetime: served from the cache, whatever happened on other keys
                    if x.app_invoked {
                        return Err((
                            "C20/live-entry-not-used".into(),
                            format!("follow-up for block {} after {:?} ms idle (< {}) was passed to the application instead of the cache", next, idle, st.m.t),
                        ));
                    }
                    let body = dbody(parity);
                    let exp = &body[next as usize * 16..((next as usize + 1) * 16).min(72)];
                    if reply.payload != exp || b2.map(|b| b.0) != Some(next) {
                        return Err(("C20/cached-block-wrong".into(), format!("block {} served from the cache differs from the cached body", next)));
                    }
                    st.m.dl = if (next as usize) + 1 < NBLK { Some((parity, next + 1)) } else { None };
                }
                Some((old_parity, next)) => {
                    // idle longer than the expiry: never used again -> passed to the application like a fresh request
                    if !x.app_invoked {
                        let stale = reply.payload == dbody(old_parity)[next as usize * 16..((next as usize + 1) * 16).min(72)];
                        return Err((
                            "C20/expired-entry-used".into(),
                            format!("follow-up for block {} after {:?} ms idle (> {}) was answered from the handler's cache{}", next, idle, st.m.t, if stale { " with the expired body" } else { "" }),
                        ));
                    }
                    let body = dbody(app_parity);
                    let exp = &body[next as usize * 16..((next as usize + 1) * 16).min(72)];
                    if reply.payload != exp {
                        return Err(("C20/fresh-reply-wrong".into(), format!("block {} of the fresh response is not from the application's current body", next)));
                    }
                    st.m.app_parity ^= 1;
                    st.m.dl = if (next as usize) + 1 < NBLK { Some((app_parity, next + 1)) } else { None };
                }
                None => {
                    if !x.app_invoked {
                        return Err(("C20/new-transfer-not-passed-to-application".into(), "a plain GET with no transfer in progress did not reach the application".into()));
                    }
                    if reply.payload != dbody(app_parity)[..16] {
                        return Err(("C20/fresh-reply-wrong".into(), "block 0 of a new transfer is not from the application's current body".into()));
                    }
                    st.m.app_parity ^= 1;
                    st.m.dl = Some((app_parity, 1));
                }
            }
            st.m.last.insert(0, st.m.now);
            reclaim_check(st)
        }
        Act::Next => {
            let was_alive = alive(&st.m, 0);
            if !was_alive {
                st.m.ul_covered = [false; NBLK];
            }
            let k = st.m.ul_next as usize;
            let more = k + 1 < NBLK;
            let body = ubody();
            let chunk = &body[k * 16..((k + 1) * 16).min(72)];
            let calls = st.srv.app_calls.len();
            let x = st.srv.exchange(1, &request_bytes(0, 3, st.mid, &token, &["k"], &[], Some((k as u32, more, 0)), None, chunk), &app);
            if let Some((s, pn)) = &x.panic {
                return Err((format!("C20/panic@{}", pn.site()), format!("{:?}: {}", s, pn.message)));
            }
            let reply = x.reply.as_deref().and_then(parse_reply).ok_or(("C20/no-reply".to_string(), "no reply".to_string()))?;
            let rejected = x.error.is_some();
            let all_prior_covered = (0..k).all(|j| st.m.ul_covered[j]);
            if rejected {
                if all_prior_covered {
                    return Err(("C20/live-upload-rejected".into(), format!("block {} of an upload within its lifetime was rejected: {:?}", k, x.error)));
                }
                // a continuation without its predecessors may be rejected; nothing was delivered
                st.m.ul_covered = [false; NBLK];
                st.m.ul_next = 0;
            } else if more {
                if reply.code != 0x5F || st.srv.app_calls.len() != calls {
                    return Err(("C20/continue-expected".into(), format!("non-final block {} answered {} / reached the application", k, refmodel::registries::dotted(reply.code))));
                }
                st.m.ul_covered[k] = true;
                st.m.ul_next += 1;
            } else {
                if st.srv.app_calls.len() != calls + 1 {
                    return Err(("C20/final-block-not-delivered".into(), "the final block did not reach the application".into()));
                }
                let seen = st.srv.app_calls.last().unwrap().request.payload.clone();
                for j in 0..NBLK {
                    let lo = j * 16;
                    let hi = ((j + 1) * 16).min(72);
                    let have = if seen.len() >= hi { Some(&seen[lo..hi]) } else { None };
                    if j == k || st.m.ul_covered[j] {
                        if have != Some(&body[lo..hi]) {
                            return Err((
                                "C20/live-upload-lost-bytes".into(),
                                format!("block {} was uploaded within the lifetime of the transfer but the application did not receive its bytes", j),
                            ));
                        }
                    } else if let Some(h) = have {
                        if h.iter().zip(body[lo..hi].iter()).any(|(a, b)| a == b) {
                            return Err((
                                "C20/expired-upload-bytes-used".into(),
                                format!("block {} was uploaded before the transfer expired, yet its bytes reached the application", j),
                            ));
                        }
                    }
                }
                st.m.ul_covered = [false; NBLK];
                st.m.ul_next = 0;
            }
            st.m.last.insert(0, st.m.now);
            reclaim_check(st)
        }
    }
}

fn key_of(st: &St) -> (Vec<(u8, Vec<String>, Option<u32>, Option<(u16, bool, u8)>, Option<Vec<u8>>, Option<Vec<u8>>)>, Vec<(u8, u64)>, Option<(u8, u32)>, u8, u32, [bool; NBLK]) {
    (
        st.srv.snapshot(),
        st.m.last.iter().map(|(k, t)| (*k, (st.m.now - t).min(st.m.t + 1))).collect(),
        st.m.dl,
        st.m.app_parity,
        st.m.ul_next,
        st.m.ul_covered,
    )
}

fn search(ctx: &Ctx, rep: &mut Report, upload: bool) {
    let actions = acts();
    let depth = 64; // the state space closes well before (fixpoint)
    let name = if upload { "bfs-clock-upload" } else { "bfs-clock-download" };
    let st = bfs::run(
        ctx,
        rep,
        bfs::Spec {
            name,
            description: &format!(
                "BFS over sequences of {{next request of the {} under test, GET on another path, PUT block on another endpoint, tick 333 ms, tick 499 ms, tick 1001 ms}} with expiry {} ms on the harness-owned clock, depth {}; dedup on (hook snapshot, per-key idle time capped at expiry+1, model progress)",
                if upload { "Block1 upload" } else { "Block2 download" },
                T,
                depth
            ),
            nacts: actions.len(),
            max_depth: depth,
            fresh: &|| fresh(upload),
            step: &|s: &mut St, a: usize, _check: bool| {
                // the thread-local clock must equal this state's time (another state may have run on this thread before)
                debug_assert_eq!(clock::now(), s.m.now);
                match step(s, &actions[a]) {
                    Ok(()) => Step::Ok,
                    Err((sig, what)) => Step::Violated(sig, what, Json::obj().set("time_ms", s.m.now).set("model", format!("{:?}", s.m))),
                }
            },
            key: &|s: &St| key_of(s),
            project: None,
            label: &|a| format!("{:?}", actions[a]),
        },
    );
    rep.note(&format!("{}_states", name), st.states);
    rep.note(&format!("{}_depth", name), depth);
    rep.note(&format!("{}_closed", name), st.closed);
}

fn retention(ctx: &Ctx, rep: &mut Report) {
    // (the cache's recency list is scanned linearly on every access, so a history costs O(n^2) key comparisons)
    let mut counts: Vec<u64> = vec![1, 2, 3, 5, 10, 50, 100, 500, 1000, 2000, 5000];
    if ctx.thorough() {
        counts.extend([20_000, 70_000]);
        if ctx.config == "oc" {
            counts.push(140_000); // quadratic in the dependency's recency list: one configuration only
        }
    }
    // expiry durations: one hour, just above 2^32 ms (~49.7 days), ten years
    let expiries: [u64; 3] = [3_600_000, (1u64 << 32) + 50, 315_360_000_000];
    let n = counts.len() as u64 * 2 * expiries.len() as u64;
    ctx.family(
        rep,
        "retention-under-load",
        "expiry {one hour, 2^32+50 ms, ten years}; a transfer on key K is started, 300 ms pass, then 1..2000 requests on other keys (1 ms apart, every one on a distinct key; quick up to 5000, thorough up to 140000 - beyond 2^16 and 2^17 tracked keys), then the follow-up on K: served from the cache / the upload completes with its buffered bytes",
        n,
        true,
        |i, rep| {
            let c = counts[((i / 2) % counts.len() as u64) as usize];
            let upload = i % 2 == 1;
            let expiry = expiries[(i / 2 / counts.len() as u64) as usize];
            if c > 5000 && expiry != expiries[0] {
                rep.count("skipped-very-many-keys-only-at-the-one-hour-expiry");
                return;
            }
            clock::reset();
            let mut srv = Server::new(BUDGET, Duration::from_millis(expiry));
            let app = |call: &AppCall| -> AppReply {
                if call.request.code == 1 {
                    AppReply { code: 0x45, options: vec![], payload: dbody(0) }
                } else {
                    AppReply { code: 0x44, options: vec![], payload: vec![] }
                }
            };
            let body = ubody();
            if upload {
                for k in 0..4u32 {
                    srv.exchange(1, &request_bytes(0, 3, k as u16, &[1], &["k"], &[], Some((k, true, 0)), None, &body[k as usize * 16..k as usize * 16 + 16]), &app);
                }
            } else {
                srv.exchange(1, &request_bytes(0, 1, 1, &[1], &["k"], &[], None, None, &[]), &app);
            }
            for j in 0..c {
                clock::advance(if j == 0 { 300 } else { 1 }); // 300 ms idle first (far below every expiry used)
                let p = format!("o{}", j); // every intervening request on its own key
                if j % 2 == 0 {
                    srv.exchange((j % 3) as u32 + 1, &request_bytes(0, 1, (100 + j) as u16, &[2], &[&p], &[], None, None, &[]), &app);
                } else {
                    srv.exchange((j % 3) as u32 + 1, &request_bytes(0, 3, (100 + j) as u16, &[2], &[&p], &[], Some((0, true, 0)), None, &[7; 16]), &app);
                }
                rep.visit(&(j % 40, upload));
                if j & 255 == 0 {
                    mccore::guard::tick(); // one case is a long history: show progress to the watchdog
                }
            }
            let calls = srv.app_calls.len();
            let ok = if upload {
                let x = srv.exchange(1, &request_bytes(0, 3, 9, &[1], &["k"], &[], Some((4, false, 0)), None, &body[64..72]), &app);
                x.app_invoked && srv.app_calls.last().map(|c| c.request.payload == body).unwrap_or(false)
            } else {
                let x = srv.exchange(1, &request_bytes(0, 1, 9, &[1], &["k"], &[], None, Some((1, false, 0)), &[]), &app);
                let r = x.reply.as_deref().and_then(parse_reply);
                !x.app_invoked && srv.app_calls.len() == calls && r.map(|r| r.payload == dbody(0)[16..32]).unwrap_or(false)
            };
            if ok {
                rep.count("state-survived-intervening-requests");
                rep.bucket(&(c, upload, expiry));
            } else {
                rep.violation(viol(
                    "retention-under-load",
                    i,
                    "C20/state-lost-under-load",
                    format!("after {} requests on other keys inside the lifetime the {} on K did not continue from its cached state", c, if upload { "upload" } else { "download" }),
                    Json::obj().set("intervening_requests", c).set("upload", upload).set("expiry_ms", expiry),
                ));
            }
            if ctx.want_sample(i, n) || i == 0 {
                rep.sample(Json::obj().set("family", "retention-under-load").set("intervening_requests", c).set("upload", upload));
            }
        },
    );
}

fn reclamation(ctx: &Ctx, rep: &mut Report) {
    let n = 50 * 2;
    ctx.family(
        rep,
        "reclamation",
        "1..50 abandoned 1 KiB Block1 uploads (distinct keys), clock advanced past the expiry, then one request (on one of the old keys / on a new key): the cache physically holds exactly the one new entry (live endpoint instances: 2 per entry) and the snapshot shows no buffered bytes of the abandoned uploads",
        n,
        true,
        |i, rep| {
            let c = i / 2 + 1;
            let same_key = i % 2 == 1;
            let per = clones_per_entry();
            clock::reset();
            let base = Ep::live();
            let mut srv = Server::new(1152, Duration::from_millis(T));
            let app = |_c: &AppCall| AppReply { code: 0x44, options: vec![], payload: vec![] };
            for j in 0..c {
                let p = format!("r{}", j);
                srv.exchange(j as u32 + 10, &request_bytes(0, 3, j as u16, &[3], &[&p], &[], Some((0, true, 6)), None, &vec![0xAB; 1024]), &app);
                clock::advance(1);
                rep.visit(&(j, "abandon"));
            }
            let held_before = if per > 0 { (Ep::live() - base) / per } else { c as i64 };
            let bytes_before: usize = srv.snapshot().iter().map(|e| e.5.as_ref().map(|b| b.len()).unwrap_or(0)).sum();
            clock::advance(T + 1);
            if same_key {
                srv.exchange(10, &request_bytes(0, 3, 999, &[3], &["r0"], &[], Some((0, true, 6)), None, &vec![0xCD; 1024]), &app);
            } else {
                srv.exchange(5, &request_bytes(0, 1, 999, &[3], &["fresh"], &[], None, None, &[]), &app);
            }
            let held_after = if per > 0 { (Ep::live() - base) / per } else { 0 };
            let snap = srv.snapshot();
            let stale_bytes: usize = snap.iter().filter_map(|e| e.5.as_ref()).filter(|b| b.first() == Some(&0xAB)).map(|b| b.len()).sum();
            // (without hooks the snapshot is empty: only the live key instances speak)
            let visible_before_ok = !HOOKS || bytes_before as u64 == 1024 * c;
            if held_before as u64 == c && visible_before_ok && held_after <= 1 && stale_bytes == 0 && snap.len() <= 1 {
                rep.count("abandoned-transfers-reclaimed");
                rep.bucket(&(c, same_key));
            } else {
                rep.violation(viol(
                    "reclamation",
                    i,
                    "C20/expired-entries-not-reclaimed",
                    format!("{} abandoned uploads: {} entries / {} bytes before expiry; after expiry and one request {} entries physically held, {} stale bytes visible", c, held_before, bytes_before, held_after, stale_bytes),
                    Json::obj().set("abandoned", c).set("same_key", same_key),
                ));
            }
            drop(srv);
            if Ep::live() != base {
                rep.violation(viol("reclamation", i, "MACHINERY/endpoint-counter-leak", "endpoint instances leaked by the harness", Json::Null));
            }
        },
    );
}

/// Real clock, must-be-expired direction only (configuration `realclock`).
fn realclock_conformance(ctx: &Ctx, rep: &mut Report) {
    let n = 6u64;
    ctx.family(
        rep,
        "realclock-conformance",
        "production clock (std::time::Instant): expiry 20..60 ms, idle >= 4x the expiry, then the follow-up: it must reach the application (download) / the final block must not deliver pre-expiry bytes (upload). One-sided, so scheduling delays cannot raise an alarm; conformance runs, not the deciding step",
        n,
        false,
        |i, rep| {
            let expiry = [20u64, 30, 60][(i / 2) as usize];
            let upload = i % 2 == 1;
            let mut srv = Server::new(BUDGET, Duration::from_millis(expiry));
            let app = |call: &AppCall| -> AppReply {
                if call.request.code == 1 {
                    AppReply { code: 0x45, options: vec![], payload: dbody(0) }
                } else {
                    AppReply { code: 0x44, options: vec![], payload: vec![] }
                }
            };
            let body = ubody();
            let ok = if upload {
                for k in 0..4u32 {
                    srv.exchange(1, &request_bytes(0, 3, k as u16, &[1], &["k"], &[], Some((k, true, 0)), None, &body[k as usize * 16..k as usize * 16 + 16]), &app);
                }
                rt_pause(expiry * 4 + 5);
                let x = srv.exchange(1, &request_bytes(0, 3, 9, &[1], &["k"], &[], Some((4, false, 0)), None, &body[64..72]), &app);
                match srv.app_calls.last() {
                    Some(c) if x.app_invoked => c.request.payload.len() < 64 || c.request.payload[..64].iter().zip(body[..64].iter()).all(|(a, b)| a != b),
                    _ => x.error.is_some(),
                }
            } else {
                srv.exchange(1, &request_bytes(0, 1, 1, &[1], &["k"], &[], None, None, &[]), &app);
                rt_pause(expiry * 4 + 5);
                let x = srv.exchange(1, &request_bytes(0, 1, 9, &[1], &["k"], &[], None, Some((1, false, 0)), &[]), &app);
                x.app_invoked
            };
            rep.visit(&(expiry, upload));
            if ok {
                rep.count("expired-under-the-real-clock");
                rep.bucket(&(expiry, upload));
            } else {
                rep.violation(viol(
                    "realclock-conformance",
                    i,
                    "C20/expired-entry-used",
                    format!("real clock: expiry {} ms, idle {} ms, the {} still used its cached state", expiry, expiry * 4 + 5, if upload { "upload" } else { "download" }),
                    Json::obj().set("expiry_ms", expiry).set("upload", upload),
                ));
            }
            if i == 0 || ctx.want_sample(i, n) {
                rep.sample(Json::obj().set("family", "realclock-conformance").set("expiry_ms", expiry).set("upload", upload));
            }
        },
    );
}

// ---------------------------------------------------------------------------
// Real-time mode: the same step function and oracle, but time passes by sleeping and the model's clock is the
// harness's own measurement of the production clock.  Used (a) in the `realclock` configuration and (b) as the
// deciding exploration when the fake-clock seam turns out not to drive the implementation's notion of time (an
// implementation that no longer keeps its state in lru_time_cache).  Every verdict is two-sided but guarded: a step
// whose measured idle times are not clearly below 0.4 x expiry or clearly above 1.5 x expiry is discarded as
// inconclusive, so scheduling delays can lose coverage but cannot raise an alarm.
// ---------------------------------------------------------------------------
const RT: u64 = 150; // expiry in the real-time sequences (ms)
const RT_LONG: u64 = 260; // "long" pause: > 1.5 x RT
const RT_SHORT: u64 = 40; // "short" pause: < 0.4 x RT (two of them in a row fall into the inconclusive band)

static INCONCLUSIVE: std::sync::atomic::AtomicU64 = std::sync::atomic::AtomicU64::new(0);

/// A pause on the production clock; the harness-owned clock (if the build has one) moves along, so that an
/// implementation reading either of them sees the time pass.
fn rt_pause(ms: u64) {
    std::thread::sleep(Duration::from_millis(ms));
    if clock::FAKE {
        clock::advance(ms);
    }
}

fn rt_acts() -> Vec<Act> {
    vec![Act::Next, Act::OtherGet, Act::OtherPut, Act::Tick(RT_LONG), Act::Tick(RT_SHORT)]
}

/// Runs one action sequence under the production clock. Ok(true) = every step conclusive.
fn rt_sequence(upload: bool, seq: &[usize]) -> Result<bool, (usize, String, String, String)> {
    let actions = rt_acts();
    let mut st = fresh_with(upload, RT);
    let start = std::time::Instant::now();
    let ms = |i: std::time::Instant| i.elapsed().as_micros() as u64;
    // latest possible touch time per key (the model's `last` holds the earliest possible one), microseconds
    let mut last_hi: BTreeMap<u8, u64> = BTreeMap::new();
    let mut last_lo: BTreeMap<u8, u64> = BTreeMap::new();
    for (pos, &a) in seq.iter().enumerate() {
        if let Act::Tick(d) = &actions[a] {
            rt_pause(*d);
            continue;
        }
        let before = ms(start);
        st.m.now = before / 1000;
        // the model's `last` is in whole milliseconds, earliest possible touch
        let prev_model = st.m.last.clone();
        let r = step(&mut st, &actions[a]);
        let after = ms(start);
        let mut conclusive = true;
        for (k, lo) in &last_lo {
            let hi = last_hi[k];
            let idle_min = before.saturating_sub(hi);
            let idle_max = after - lo;
            if !(idle_max < RT * 400 || idle_min > RT * 1500) {
                conclusive = false;
            }
        }
        if !conclusive {
            INCONCLUSIVE.fetch_add(1, std::sync::atomic::Ordering::Relaxed);
            return Ok(false);
        }
        if let Err((sig, what)) = r {
            return Err((pos, sig, what, format!("{:?}", st.m)));
        }
        for (k, t) in &st.m.last {
            if prev_model.get(k) != Some(t) || *t == st.m.now {
                last_lo.insert(*k, before);
                last_hi.insert(*k, after);
            }
        }
    }
    Ok(true)
}

fn realtime_sequences(ctx: &Ctx, rep: &mut Report) {
    let depth: u32 = if ctx.thorough() { 5 } else { 4 };
    let na = rt_acts().len() as u64;
    let n = na.pow(depth) * 2;
    ctx.family(
        rep,
        "realtime-sequences",
        &format!(
            "production clock: every sequence of {} actions over {{next request of the transfer under test, GET on another path, PUT block on another endpoint, pause {} ms, pause {} ms}} with expiry {} ms, download and upload; same step function and oracle as the fake-clock search, the model's time being the harness's measurement; a step whose idle times are not clearly < 0.4 x expiry or > 1.5 x expiry is discarded as inconclusive",
            depth, RT_LONG, RT_SHORT, RT
        ),
        n,
        true,
        |i, rep| {
            let upload = i % 2 == 1;
            let mut x = i / 2;
            let mut seq = Vec::new();
            for _ in 0..depth {
                seq.push((x % na) as usize);
                x /= na;
            }
            match rt_sequence(upload, &seq) {
                Ok(_) => {
                    rep.visit(&(upload, seq.clone()));
                    rep.count("realtime-sequence-run");
                }
                Err((pos, sig, what, model)) => {
                    let labels: Vec<String> = seq.iter().map(|a| format!("{:?}", rt_acts()[*a])).collect();
                    rep.violation(viol("realtime-sequences", i, &sig, format!("real clock, step {} of {:?}: {}", pos, labels, what), Json::obj().set("upload", upload).set("sequence", format!("{:?}", labels)).set("model", model)));
                }
            }
            if i == 0 || ctx.want_sample(i, n) {
                rep.sample(Json::obj().set("family", "realtime-sequences").set("upload", upload).set("sequence", format!("{:?}", seq)));
            }
        },
    );
}

/// Real clock: retention under load (expiry one minute, no pauses) and reclamation (expiry 40 ms, pause 100 ms).
fn realtime_retention_and_reclamation(ctx: &Ctx, rep: &mut Report) {
    let counts: [u64; 5] = [1, 10, 100, 1000, 3000];
    let n = counts.len() as u64 * 2;
    ctx.family(
        rep,
        "realtime-retention-under-load",
        "production clock, expiry 60 s: a transfer on key K is started, then 1..3000 requests on distinct other keys without pausing, then the follow-up on K: served from the cache / the upload completes with its buffered bytes (discarded as inconclusive if the whole case took more than 24 s)",
        n,
        true,
        |i, rep| {
            let c = counts[(i / 2) as usize];
            let upload = i % 2 == 1;
            let t0 = std::time::Instant::now();
            let mut srv = Server::new(BUDGET, Duration::from_millis(60_000));
            let app = |call: &AppCall| -> AppReply {
                if call.request.code == 1 {
                    AppReply { code: 0x45, options: vec![], payload: dbody(0) }
                } else {
                    AppReply { code: 0x44, options: vec![], payload: vec![] }
                }
            };
            let body = ubody();
            if upload {
                for k in 0..4u32 {
                    srv.exchange(1, &request_bytes(0, 3, k as u16, &[1], &["k"], &[], Some((k, true, 0)), None, &body[k as usize * 16..k as usize * 16 + 16]), &app);
                }
            } else {
                srv.exchange(1, &request_bytes(0, 1, 1, &[1], &["k"], &[], None, None, &[]), &app);
            }
            for j in 0..c {
                let p = format!("o{}", j);
                if j % 2 == 0 {
                    srv.exchange((j % 3) as u32 + 1, &request_bytes(0, 1, (100 + j) as u16, &[2], &[&p], &[], None, None, &[]), &app);
                } else {
                    srv.exchange((j % 3) as u32 + 1, &request_bytes(0, 3, (100 + j) as u16, &[2], &[&p], &[], Some((0, true, 0)), None, &[7; 16]), &app);
                }
                if j & 255 == 0 {
                    mccore::guard::tick();
                }
            }
            let calls = srv.app_calls.len();
            let ok = if upload {
                let x = srv.exchange(1, &request_bytes(0, 3, 9, &[1], &["k"], &[], Some((4, false, 0)), None, &body[64..72]), &app);
                x.app_invoked && srv.app_calls.last().map(|c| c.request.payload == body).unwrap_or(false)
            } else {
                let x = srv.exchange(1, &request_bytes(0, 1, 9, &[1], &["k"], &[], None, Some((1, false, 0)), &[]), &app);
                let r = x.reply.as_deref().and_then(parse_reply);
                !x.app_invoked && srv.app_calls.len() == calls && r.map(|r| r.payload == dbody(0)[16..32]).unwrap_or(false)
            };
            rep.visit(&(c, upload));
            if t0.elapsed() > Duration::from_secs(24) {
                INCONCLUSIVE.fetch_add(1, std::sync::atomic::Ordering::Relaxed);
            } else if ok {
                rep.count("state-survived-intervening-requests-real-clock");
            } else {
                rep.violation(viol(
                    "realtime-retention-under-load",
                    i,
                    "C20/state-lost-under-load",
                    format!("real clock, expiry 60 s: after {} requests on other keys the {} on K did not continue from its cached state", c, if upload { "upload" } else { "download" }),
                    Json::obj().set("intervening_requests", c).set("upload", upload),
                ));
            }
            if i == 0 {
                rep.sample(Json::obj().set("family", "realtime-retention-under-load").set("intervening_requests", c).set("upload", upload));
            }
        },
    );
    let n = 12 * 2;
    ctx.family(
        rep,
        "realtime-reclamation",
        "production clock, expiry 40 ms: 1..12 abandoned 1 KiB Block1 uploads on distinct keys, a pause of 100 ms, then one request (on one of the old keys / on a new key): at most the one new entry is physically held (live key instances, calibrated per entry) and the snapshot shows no buffered bytes of the abandoned uploads",
        n,
        true,
        |i, rep| {
            let c = i / 2 + 1;
            let same_key = i % 2 == 1;
            let per = clones_per_entry();
            let base = Ep::live();
            let mut srv = Server::new(1152, Duration::from_millis(40));
            let app = |_c: &AppCall| AppReply { code: 0x44, options: vec![], payload: vec![] };
            for j in 0..c {
                let p = format!("r{}", j);
                srv.exchange(j as u32 + 10, &request_bytes(0, 3, j as u16, &[3], &[&p], &[], Some((0, true, 6)), None, &vec![0xAB; 1024]), &app);
            }
            rt_pause(100);
            if same_key {
                srv.exchange(10, &request_bytes(0, 3, 999, &[3], &["r0"], &[], Some((0, true, 6)), None, &vec![0xCD; 1024]), &app);
            } else {
                srv.exchange(5, &request_bytes(0, 1, 999, &[3], &["fresh"], &[], None, None, &[]), &app);
            }
            let held_after = if per > 0 { (Ep::live() - base) / per } else { 0 };
            let snap = srv.snapshot();
            let stale_bytes: usize = snap.iter().filter_map(|e| e.5.as_ref()).filter(|b| b.first() == Some(&0xAB)).map(|b| b.len()).sum();
            rep.visit(&(c, same_key));
            if held_after <= 1 && stale_bytes == 0 && snap.len() <= 1 {
                rep.count("abandoned-transfers-reclaimed-real-clock");
            } else {
                rep.violation(viol(
                    "realtime-reclamation",
                    i,
                    "C20/expired-entries-not-reclaimed",
                    format!("real clock, expiry 40 ms: {} abandoned uploads, 100 ms pause, one request: {} entries physically held, {} stale bytes visible", c, held_after, stale_bytes),
                    Json::obj().set("abandoned", c).set("same_key", same_key),
                ));
            }
            drop(srv);
            if i == 0 {
                rep.sample(Json::obj().set("family", "realtime-reclamation").set("abandoned", c).set("same_key", same_key));
            }
        },
    );
}

fn realtime_all(ctx: &Ctx, rep: &mut Report) {
    realclock_conformance(ctx, rep);
    realtime_sequences(ctx, rep);
    realtime_retention_and_reclamation(ctx, rep);
    rep.note("realtime_steps_discarded_as_inconclusive", INCONCLUSIVE.load(std::sync::atomic::Ordering::Relaxed));
}

/// Does the fake-clock seam drive the implementation's notion of time? A cached download, 5 x the expiry on the
/// harness-owned clock, then the follow-up: with an effective seam the state has expired and the application is
/// consulted. (An implementation whose expiry is broken looks the same as one that reads another clock; the
/// real-time families then decide.)
#[cfg(feature = "fakeclock")]
fn seam_effective() -> bool {
    clock::reset();
    let mut srv = Server::new(BUDGET, Duration::from_millis(T));
    let app = |_c: &AppCall| AppReply { code: 0x45, options: vec![], payload: dbody(0) };
    srv.exchange(1, &request_bytes(0, 1, 1, &[1], &["k"], &[], None, None, &[]), &app);
    clock::advance(5 * T);
    let x = srv.exchange(1, &request_bytes(0, 1, 2, &[1], &["k"], &[], None, Some((1, false, 0)), &[]), &app);
    clock::reset();
    x.app_invoked
}
#[cfg(not(feature = "fakeclock"))]
fn seam_effective() -> bool {
    false
}

pub fn run(ctx: &Ctx, rep: &mut Report) {
    if !clock::FAKE {
        realtime_all(ctx, rep);
        rep.assume("realclock configuration: production Instant clock; verdicts are guarded by measured idle times (inconclusive steps are discarded, never reported)");
        return;
    }
    if !seam_effective() {
        rep.note("fake_clock_seam_effective", false);
        rep.assume("the handler's state did not expire when the harness-owned fake clock (lru_time_cache's sn_fake_clock seam) was advanced past the expiry: the implementation reads another clock (or its expiry is broken). The fake-clock families were therefore NOT run; the production-clock families (sleeping, guarded two-sided verdicts) are the deciding exploration on this tree");
        realtime_all(ctx, rep);
        return;
    }
    rep.note("fake_clock_seam_effective", true);
    search(ctx, rep, false);
    search(ctx, rep, true);
    retention(ctx, rep);
    reclamation(ctx, rep);
    rep.assume("the clock is lru_time_cache's own fake-clock seam (feature sn_fake_clock) backed by a thread-local millisecond counter owned by the harness; the code under test is the real BlockHandler and the real cache");
    rep.assume("idle times are sums of 333 and 499 ms ticks (0, 333, 499, 666, 832, 998, 999) or > 1000 ms: exactly the expiry duration is never reachable and never explored (the property is silent there and the dependency's entry()/peek_iter() disagree at equality)");
    rep.assume("the number of key clones one cache entry holds is measured on the implementation (2 with lru_time_cache: map key + recency list); live endpoint instances / that number = physical entries; fewer entries than the model expects are fine, more are not");
}
