//! C14 — Observe registry: one observer per endpoint per resource, removed only on match.
//! C15 — Observe accounting: sequence +1 per round, eviction exactly past the limit.
//!
//! One explicit-state search (E2) over the real `Subject`, run to a fixpoint,
//! lock-step with `refmodel::subject::RefSubject`; C15 adds directed long
//! histories and the notification builder product.

use crate::common::{msg_json, pattern, to_ref};
use coap_lite::{create_notification, CoapRequest, Subject};
use mccore::bfs::{self, Step};
use mccore::{decode, guard, product, viol, Ctx, Json, Report};
use refmodel::codec::{self, RefMsg};
use refmodel::subject::RefSubject;
use std::collections::BTreeMap;
use std::fmt;

/// Endpoint identity is `PartialEq` (field 0). What `Display` prints is deliberately *not* the identity: it shows a
/// per-request connection tag (field 1, taken from the request's token), so two requests of one endpoint may print
/// differently and two endpoints may print alike - as with a socket address type whose Display omits the port or
/// adds a session id. An implementation that uses Display for anything but logging is caught by it.
#[derive(Clone, Debug)]
pub struct Ep(pub u32, pub u32);
impl PartialEq for Ep {
    fn eq(&self, o: &Ep) -> bool {
        self.0 == o.0
    }
}
impl fmt::Display for Ep {
    fn fmt(&self, f: &mut fmt::Formatter<'_>) -> fmt::Result {
        write!(f, "peer-{}", self.1)
    }
}
// More traits than the crate asks for today, all consistent with the identity (field 0), so that an implementation
// that starts to keep endpoints in an ordered or hashed container still builds against this driver.
impl Eq for Ep {}
impl PartialOrd for Ep {
    fn partial_cmp(&self, o: &Ep) -> Option<std::cmp::Ordering> {
        Some(self.cmp(o))
    }
}
impl Ord for Ep {
    fn cmp(&self, o: &Ep) -> std::cmp::Ordering {
        self.0.cmp(&o.0)
    }
}
impl std::hash::Hash for Ep {
    fn hash<H: std::hash::Hasher>(&self, h: &mut H) {
        self.0.hash(h)
    }
}

#[derive(Clone, Copy, PartialEq, Eq)]
enum Prop {
    C14,
    C15,
}

#[derive(Clone, Debug)]
enum Act {
    Register(u32, u8, &'static str),
    Deregister(u32, u8, &'static str),
    Changed(&'static str, u16, bool),
    Ack(u32, u16),
    SetLimit(u8),
}

const P1: &str = "t";
const P2: &str = "s/u";
const PNEVER: &str = "zz";

fn token_of(t: u8) -> Vec<u8> {
    match t {
        0 => vec![0xA1],
        1 => vec![0xB2, 0xB3],
        _ => vec![],
    }
}

const P3: &str = "/t"; // leading empty segment: differs from P1 only by it
const P4: &str = "t/"; // trailing empty segment

fn actions(mode: u8) -> Vec<Act> {
    // mode 0: 2 endpoints x 2 tokens x 2 paths; 1: 3 endpoints x 3 tokens on ONE observed path; 2: 2 endpoints x
    // 1 token x THREE paths (the reachable set is the product of the per-path sets, so widening everything at once
    // is out of reach)
    // 3 (thorough only): 3 endpoints x 2 tokens x 2 paths
    let eps: Vec<u32> = if mode == 1 || mode == 3 { vec![1, 2, 3] } else { vec![1, 2] };
    let toks: Vec<u8> = match mode {
        1 => vec![0, 1, 2],
        2 => vec![0],
        _ => vec![0, 1],
    };
    let paths: Vec<&'static str> = match mode {
        1 => vec![P1],
        2 => vec![P1, P4, P3],
        _ => vec![P1, P2],
    };
    let mut a = Vec::new();
    for &e in &eps {
        for &t in &toks {
            for &p in &paths {
                a.push(Act::Register(e, t, p));
                a.push(Act::Deregister(e, t, p));
            }
        }
    }
    for p in paths.iter().copied().chain(std::iter::once(PNEVER)) {
        for mid in [100u16, 200] {
            for con in [true, false] {
                a.push(Act::Changed(p, mid, con));
            }
        }
    }
    for e in eps.iter().copied().chain(std::iter::once(9)) {
        for mid in [100u16, 200] {
            a.push(Act::Ack(e, mid));
        }
    }
    a
}

struct St {
    s: Subject<Ep>,
    m: RefSubject,
}

type Snap = BTreeMap<String, (u32, Vec<(u32, Vec<u8>, u64, Option<u16>)>)>;

/// Implementation state: public API plus the hook accessors for the two private per-observer fields. Without the
/// hooks (feature `nohooks`) the private fields are taken from the reference model `m`, i.e. only what later
/// operations reveal is compared.
fn snapshot(s: &Subject<Ep>, m: &RefSubject) -> Snap {
    let mut paths: Vec<String> = vec![P1.into(), P2.into(), P3.into(), P4.into(), PNEVER.into()];
    #[cfg(not(feature = "nohooks"))]
    let extra: Vec<String> = {
        let _ = m;
        s.verif_resource_paths()
    };
    #[cfg(feature = "nohooks")]
    let extra: Vec<String> = m.resources.keys().cloned().collect();
    for p in extra {
        if !paths.contains(&p) {
            paths.push(p);
        }
    }
    let mut out = Snap::new();
    for p in paths {
        if let Some(r) = s.get_resource(&p) {
            let obs = r
                .observers
                .iter()
                .map(|o| {
                    #[cfg(not(feature = "nohooks"))]
                    let hidden = (o.verif_unacknowledged(), o.verif_pending_message_id());
                    #[cfg(feature = "nohooks")]
                    let hidden = m
                        .resources
                        .get(&p)
                        .and_then(|mr| mr.observers.iter().find(|mo| mo.endpoint == o.endpoint.0))
                        .map(|mo| (mo.unacked, mo.pending))
                        .unwrap_or((0, None));
                    (o.endpoint.0, o.token.clone(), hidden.0, hidden.1)
                })
                .collect();
            out.insert(p, (r.sequence, obs));
        }
    }
    out
}

fn limit_of(s: &Subject<Ep>, m: &RefSubject) -> u64 {
    #[cfg(not(feature = "nohooks"))]
    {
        let _ = m;
        s.verif_unacknowledged_limit()
    }
    #[cfg(feature = "nohooks")]
    {
        let _ = s;
        m.limit
    }
}

fn request(ep: u32, tok: &[u8], path: &str, mid: u16) -> CoapRequest<Ep> {
    let mut r: CoapRequest<Ep> = CoapRequest::new();
    r.source = Some(Ep(ep, tok.first().copied().unwrap_or(0) as u32));
    if path.is_empty() {
        r.set_path(path);
    } else {
        // segment by segment (set_path would strip a leading slash; "/t" must stay ["", "t"])
        for seg in path.split('/') {
            r.message.add_option(coap_lite::CoapOption::UriPath, seg.as_bytes().to_vec());
        }
    }
    r.message.set_token(tok.to_vec());
    r.message.header.message_id = mid;
    r
}

fn apply_impl(s: &mut Subject<Ep>, a: &Act) -> Result<(), mccore::Panicked> {
    // (return values are discarded: an operation that starts to return something is still the same operation)
    match a {
        Act::Register(e, t, p) => {
            let r = request(*e, &token_of(*t), p, 1);
            guard(|| {
                let _ = s.register(&r);
            })
        }
        Act::Deregister(e, t, p) => {
            let r = request(*e, &token_of(*t), p, 2);
            guard(|| {
                let _ = s.deregister(&r);
            })
        }
        Act::Changed(p, mid, con) => guard(|| {
            let _ = s.resource_changed(p, *mid, *con);
        }),
        Act::Ack(e, mid) => {
            let r = request(*e, &[], "", *mid);
            guard(|| {
                let _ = s.acknowledge(&r);
            })
        }
        Act::SetLimit(l) => guard(|| {
            let _ = s.set_unacknowledged_limit(*l);
        }),
    }
}

fn apply_model(m: &mut RefSubject, a: &Act) {
    match a {
        Act::Register(e, t, p) => m.register(*e, &token_of(*t), p),
        Act::Deregister(e, t, p) => m.deregister(*e, &token_of(*t), p),
        Act::Changed(p, mid, con) => {
            m.resource_changed(p, *mid, *con);
        }
        Act::Ack(e, mid) => m.acknowledge(*e, *mid),
        Act::SetLimit(l) => m.set_limit(*l as u64),
    }
}

#[derive(Debug)]
struct Mismatch {
    structural: bool, // true: C14 kind, false: C15 kind
    sig: &'static str,
    what: String,
}

/// Compares the implementation snapshot with the model after action `a`.
/// `before` is the implementation snapshot before the action (frame conditions).
fn compare(a: &Act, before: &Snap, after: &Snap, m: &mut RefSubject, model_before: &RefSubject) -> Option<Mismatch> {
    let target: Option<&str> = match a {
        Act::Register(_, _, p) | Act::Deregister(_, _, p) | Act::Changed(p, _, _) => Some(p),
        _ => None,
    };
    let is_round = matches!(a, Act::Changed(..));
    let is_ack = matches!(a, Act::Ack(..));
    // invariant: at most one observer per endpoint per path
    for (p, (_, obs)) in after {
        let mut eps: Vec<u32> = obs.iter().map(|o| o.0).collect();
        eps.sort();
        let n = eps.len();
        eps.dedup();
        if eps.len() != n {
            return Some(Mismatch { structural: true, sig: "duplicate-observer-for-endpoint", what: format!("path {:?} lists an endpoint twice: {:?}", p, obs) });
        }
    }
    let mut paths: Vec<&String> = after.keys().chain(m.resources.keys()).collect();
    paths.sort();
    paths.dedup();
    let paths: Vec<String> = paths.into_iter().cloned().collect();
    for p in &paths {
        let on_target = target == Some(p.as_str());
        let ie = after.get(p);
        let me = m.resources.get(p).cloned();
        // frame condition for paths the operation does not address (acknowledge addresses all)
        if !on_target && !is_ack && before.get(p) != ie {
            return Some(Mismatch {
                structural: true,
                sig: "other-resource-changed",
                what: format!("{:?} changed resource {:?}: {:?} -> {:?}", a, p, before.get(p), ie),
            });
        }
        match (me, ie) {
            (None, None) => {}
            (None, Some(e)) => {
                return Some(Mismatch {
                    structural: true,
                    sig: if is_round { "round-created-entry-for-unobserved-path" } else { "unexpected-resource-entry" },
                    what: format!("{:?}: path {:?} now has an entry {:?} although nothing was ever registered there", a, p, e),
                });
            }
            (Some(me), None) => {
                if !me.observers.is_empty() {
                    return Some(Mismatch {
                        structural: !is_round && !is_ack,
                        sig: "resource-entry-missing",
                        what: format!("{:?}: path {:?} has no entry, expected observers {:?}", a, p, me.observers),
                    });
                }
            }
            (Some(me), Some((seq, obs))) => {
                let got_ids: Vec<(u32, &Vec<u8>)> = obs.iter().map(|o| (o.0, &o.1)).collect();
                let exp_ids: Vec<(u32, &Vec<u8>)> = me.observers.iter().map(|o| (o.endpoint, &o.token)).collect();
                if got_ids != exp_ids {
                    // who/where/which token: structure for (de)registration, accounting (eviction) for rounds
                    return Some(Mismatch {
                        structural: !is_round && !is_ack,
                        sig: if is_round { "eviction-mismatch" } else { "observer-list-mismatch" },
                        what: format!("{:?}: path {:?} observers (endpoint, token) {:?}, expected {:?}", a, p, got_ids, exp_ids),
                    });
                }
                for (o, mo) in obs.iter().zip(me.observers.iter()) {
                    if o.2 != mo.unacked {
                        return Some(Mismatch {
                            structural: matches!(a, Act::Register(..)),
                            sig: if matches!(a, Act::Register(..)) { "count-not-cleared-on-register" } else { "unacknowledged-count-mismatch" },
                            what: format!("{:?}: path {:?} endpoint {} count {}, expected {}", a, p, o.0, o.2, mo.unacked),
                        });
                    }
                    if mo.unacked > 0 && o.3 != mo.pending {
                        return Some(Mismatch {
                            structural: false,
                            sig: "pending-message-id-mismatch",
                            what: format!("{:?}: path {:?} endpoint {} awaits ack for {:?}, expected {:?}", a, p, o.0, o.3, mo.pending),
                        });
                    }
                }
                // sequence
                if !model_before.resources.contains_key(p) || before.get(p).is_none() {
                    // a new entry (also: an entry the implementation had dropped together with its last observer and
                    // now creates again): the number it starts from is not fixed by the properties; follow the implementation
                    m.resources.get_mut(p).unwrap().sequence = *seq as u64;
                    continue;
                }
                let observed_before = model_before.resources.get(p).map(|r| !r.observers.is_empty()).unwrap_or(false);
                if is_round && on_target && !observed_before {
                    // nobody observes: the statement does not say whether the number advances; follow the implementation
                    if (*seq as u64) < model_before.resources.get(p).map(|r| r.sequence).unwrap_or(0) {
                        return Some(Mismatch { structural: false, sig: "sequence-went-backwards", what: format!("{:?}: path {:?} sequence {}", a, p, seq) });
                    }
                    m.resources.get_mut(p).unwrap().sequence = *seq as u64;
                } else if *seq as u64 != me.sequence {
                    return Some(Mismatch {
                        structural: !is_round,
                        sig: if is_round { "sequence-not-incremented-by-one" } else { "sequence-changed-outside-a-round" },
                        what: format!("{:?}: path {:?} sequence {}, expected {}", a, p, seq, me.sequence),
                    });
                }
            }
        }
    }
    None
}

fn key_of(snap: &Snap, limit: u64) -> (Vec<(String, Vec<(u32, Vec<u8>, u64, Option<u16>)>)>, u64) {
    // sequence dropped: nothing reads it except the +1, which is checked on every transition.
    // Entries without observers are KEPT in the deduplication key (over-fine is safe, over-coarse hides states).
    (snap.iter().map(|(p, (_, o))| (p.clone(), o.clone())).collect(), limit)
}

/// Projection that is only *counted*, for the cross-engine guard: whether an entry outlives its last observer is
/// not fixed by the properties, so the comparable state count drops observer-less entries (as the model does).
fn key_projected(snap: &Snap, limit: u64) -> (Vec<(String, Vec<(u32, Vec<u8>, u64, Option<u16>)>)>, u64) {
    (snap.iter().filter(|(_, (_, o))| !o.is_empty()).map(|(p, (_, o))| (p.clone(), o.clone())).collect(), limit)
}

fn bfs_limit(prop: Prop, ctx: &Ctx, rep: &mut Report, limit: u8, with_setlimit: bool, mode: u8) {
    let mut acts = actions(mode);
    if with_setlimit {
        for l in [0u8, 1, 2] {
            acts.push(Act::SetLimit(l));
        }
    }
    let pname = if prop == Prop::C14 { "C14" } else { "C15" };
    let name = format!("bfs-limit{}{}{}", limit, if with_setlimit { "-setlimit" } else { "" }, match mode { 1 => "-3endpoints-3tokens-1path", 2 => "-2endpoints-1token-3paths", 3 => "-3endpoints-2tokens-2paths", _ => "" });
    let desc = format!(
        "closed BFS of the real Subject with unacknowledged limit {}: {} actions ({}; notification rounds on the observed path(s) + 1 never-registered path x 2 message ids x CON/NON, acknowledgements from each endpoint + a stranger x 2 ids{}); canonical key = per path the ordered observers (endpoint, token, count, pending id), sequence excluded",
        limit,
        acts.len(),
        match mode { 1 => "register/deregister x 3 endpoints x 3 tokens x 1 path", 2 => "register/deregister x 2 endpoints x 1 token x 3 paths", 3 => "register/deregister x 3 endpoints x 2 tokens x 2 paths", _ => "register/deregister x 2 endpoints x 2 tokens x 2 paths" },
        if with_setlimit { ", set_unacknowledged_limit 0/1/2" } else { "" }
    );
    let st = bfs::run(
        ctx,
        rep,
        bfs::Spec {
            name: &name,
            description: &desc,
            nacts: acts.len(),
            max_depth: 64,
            fresh: &|| {
                let mut s: Subject<Ep> = Subject::default();
                s.set_unacknowledged_limit(limit);
                St { s, m: RefSubject::new(limit as u64) }
            },
            step: &|st: &mut St, ai: usize, check: bool| {
                let a = &acts[ai];
                let before = if check { Some(snapshot(&st.s, &st.m)) } else { None };
                let model_before = if check { Some(st.m.clone()) } else { None };
                if let Err(pn) = apply_impl(&mut st.s, a) {
                    return Step::Violated(format!("{}/panic@{}", pname, pn.site()), format!("{:?}: {}", a, pn.message), Json::Null);
                }
                apply_model(&mut st.m, a);
                if !check {
                    // prefix replay (already verified when first explored): keep the model's sequence
                    // aligned with the implementation for rounds nobody observes
                    if let Act::Changed(p, _, _) | Act::Register(_, _, p) = a {
                        if let (Some(r), Some(ir)) = (st.m.resources.get_mut(*p), st.s.get_resource(p)) {
                            r.sequence = ir.sequence as u64;
                        }
                    }
                    return Step::Ok;
                }
                let after = snapshot(&st.s, &st.m);
                match compare(a, before.as_ref().unwrap(), &after, &mut st.m, model_before.as_ref().unwrap()) {
                    None => Step::Ok,
                    Some(mm) => {
                        let mine = (prop == Prop::C14) == mm.structural;
                        if mine {
                            Step::Violated(
                                format!("{}/{}", pname, mm.sig),
                                mm.what,
                                Json::obj().set("limit", limit).set("state_before", format!("{:?}", before.unwrap())).set("state_after", format!("{:?}", after)),
                            )
                        } else {
                            // the other property's clause failed here: stop exploring this branch, it reports it
                            Step::Disabled
                        }
                    }
                }
            },
            key: &|st: &St| key_of(&snapshot(&st.s, &st.m), limit_of(&st.s, &st.m)),
            project: Some(&|st: &St| key_projected(&snapshot(&st.s, &st.m), limit_of(&st.s, &st.m))),
            label: &|a| format!("{:?}", acts[a]),
        },
    );
    rep.note(&format!("{}_states", name), st.states);
    rep.note(&format!("{}_projected_states", name), st.projected_states);
    rep.note(&format!("{}_transitions", name), st.transitions);
    rep.note(&format!("{}_closed", name), st.closed);
    rep.note(&format!("{}_max_depth", name), st.max_depth);
    let root = (st.states as f64).sqrt().round() as u64;
    rep.note(&format!("{}_states_is_square_of_per_path_count", name), root * root == st.states);
}

/// Histories without state merging: setup, then one action repeated r times, then every pair of actions - compared with
/// the model after every operation. The closed searches merge states by (public state + hook counters); a defect
/// that lives in additional private state (a counter that only repetition moves) is invisible to that key, not to this.
fn repeat_then_probe(prop: Prop, ctx: &Ctx, rep: &mut Report) {
    let pname = if prop == Prop::C14 { "C14" } else { "C15" };
    let acts = actions(0);
    let setups: [&[Act]; 3] = [&[], &[Act::Register(1, 0, P1)], &[Act::Register(1, 0, P1), Act::Register(2, 1, P1), Act::Register(2, 0, P2)]];
    let reps: [usize; 6] = [1, 2, 3, 17, 70, 300];
    let limits: [u8; 3] = [0, 2, 255];
    let k = acts.len() as u64;
    let radices = [setups.len() as u64, limits.len() as u64, k, reps.len() as u64, k, k];
    let n = product(&radices);
    let fam = "repeat-then-probe";
    ctx.family(
        rep,
        fam,
        &format!("no state merging: setup {{nothing, one observer, three observers on two paths}} x limit {{0,2,255}} x one of the {} actions repeated {{1,2,3,17,70,300}} times x every ordered pair of actions; implementation compared with the model after every operation", k),
        n,
        true,
        |i, rep| {
            let d = decode(i, &radices);
            let limit = limits[d[1] as usize];
            let r = reps[d[3] as usize];
            // long repetitions only in front of a thinned set of probes (every pair for r <= 3)
            if r > 3 && (d[4] % 3 != 0 || d[5] % 2 != 0) {
                rep.count("skipped-long-repetition-thinned-probes");
                return;
            }
            let mut ops: Vec<Act> = setups[d[0] as usize].to_vec();
            for _ in 0..r {
                ops.push(acts[d[2] as usize].clone());
            }
            ops.push(acts[d[4] as usize].clone());
            ops.push(acts[d[5] as usize].clone());
            let mut s: Subject<Ep> = Subject::default();
            s.set_unacknowledged_limit(limit);
            let mut m = RefSubject::new(limit as u64);
            for (idx, a) in ops.iter().enumerate() {
                let before = snapshot(&s, &m);
                let model_before = m.clone();
                if let Err(pn) = apply_impl(&mut s, a) {
                    rep.violation(viol(fam, i, format!("{}/panic@{}", pname, pn.site()), format!("operation {} {:?}: {}", idx, a, pn.message), Json::obj().set("limit", limit).set("operations", format!("{:?}", ops))));
                    return;
                }
                apply_model(&mut m, a);
                let after = snapshot(&s, &m);
                if let Some(mm) = compare(a, &before, &after, &mut m, &model_before) {
                    if (prop == Prop::C14) == mm.structural {
                        rep.violation(viol(fam, i, format!("{}/{}", pname, mm.sig), format!("operation {}: {}", idx, mm.what), Json::obj().set("limit", limit).set("operations", format!("{:?}", ops))));
                    }
                    return;
                }
            }
            rep.count("history-agrees-with-model");
            rep.bucket(&(d[0], limit, r, d[2]));
            if i == 0 || ctx.want_sample(i, n) {
                rep.sample(Json::obj().set("family", fam).set("limit", limit).set("operations", format!("{:?}", ops)));
            }
        },
    );
}

pub fn run_c14(ctx: &Ctx, rep: &mut Report) {
    repeat_then_probe(Prop::C14, ctx, rep);
    for l in [0u8, 1, 2] {
        bfs_limit(Prop::C14, ctx, rep, l, false, 0);
    }
    bfs_limit(Prop::C14, ctx, rep, 1, false, 1);
    bfs_limit(Prop::C14, ctx, rep, 0, false, 2);
    if ctx.thorough() {
        bfs_limit(Prop::C14, ctx, rep, 3, false, 0);
        bfs_limit(Prop::C14, ctx, rep, 2, false, 1);
        bfs_limit(Prop::C14, ctx, rep, 1, true, 0);
        bfs_limit(Prop::C14, ctx, rep, 1, false, 2);
        bfs_limit(Prop::C14, ctx, rep, 0, false, 3);
        if ctx.config == "oc" {
            bfs_limit(Prop::C14, ctx, rep, 1, false, 3); // 8.9 million states: one configuration only
        }
    }
    rep.assume("refmodel::subject is the trusted reference; entry existence for a path whose observers all left and its sequence in unobserved rounds are not fixed by the statement and follow the implementation");
    rep.assume("hook accessors (cfg coap_lite_verif) expose the per-observer count and pending id for the canonical key; endpoint/token/order/sequence come from the public API");
}

// ---------------------------------------------------------------------------
// C15 extras
// ---------------------------------------------------------------------------

fn directed(ctx: &Ctx, rep: &mut Report) {
    let limits: [u8; 7] = [0, 1, 2, 10, 127, 254, 255];
    // patterns: 0 CON only; 1 CON with ack every j=1; 2 ack every 2; 3 ack every limit rounds; 4 ack every limit+1 rounds;
    // 5 CON/NON alternating; 6 CON with wrong-endpoint acks every round; 7 CON with wrong-mid acks every round; 8 NON only
    let radices = [limits.len() as u64, 9];
    let n = product(&radices);
    let rounds = 600usize;
    ctx.family(
        rep,
        "directed-long-histories",
        "limits {0,1,2,10,127,254,255} x 9 scripted patterns (CON only; ack every 1 / 2 / limit / limit+1 rounds; CON/NON alternating; wrong-endpoint acks; wrong-message-id acks; NON only), 600 rounds each, two observers (one re-registers at round 300), compared with the model after every operation",
        n,
        true,
        |i, rep| {
            let d = decode(i, &radices);
            let limit = limits[d[0] as usize];
            let pat = d[1];
            let case = || Json::obj().set("limit", limit).set("pattern", pat);
            let mut s: Subject<Ep> = Subject::default();
            s.set_unacknowledged_limit(limit);
            let mut m = RefSubject::new(limit as u64);
            let mut ops: Vec<Act> = vec![Act::Register(1, 0, P1), Act::Register(2, 1, P1), Act::Register(1, 1, P2)];
            for r in 0..rounds {
                let mid = (r as u16).wrapping_mul(7).wrapping_add(3);
                let con = match pat {
                    5 => r % 2 == 0,
                    8 => false,
                    _ => true,
                };
                ops.push(Act::Changed(P1, mid, con));
                let every = match pat {
                    1 => Some(1usize),
                    2 => Some(2),
                    3 => Some((limit as usize).max(1)),
                    4 => Some(limit as usize + 1),
                    _ => None,
                };
                if let Some(j) = every {
                    if (r + 1) % j == 0 {
                        ops.push(Act::Ack(1, mid));
                    }
                }
                if pat == 6 {
                    ops.push(Act::Ack(9, mid));
                    ops.push(Act::Ack(2, mid.wrapping_add(1)));
                }
                if pat == 7 {
                    ops.push(Act::Ack(1, mid.wrapping_add(1)));
                    ops.push(Act::Ack(1, mid.wrapping_sub(7)));
                }
                if r == 300 {
                    ops.push(Act::Register(2, 0, P1));
                }
            }
            let mut evicted_at: Vec<(u32, usize)> = Vec::new();
            let mut last_obs_value: Option<u32> = None;
            for (k, a) in ops.iter().enumerate() {
                let before = snapshot(&s, &m);
                let model_before = m.clone();
                if let Err(pn) = apply_impl(&mut s, a) {
                    rep.violation(viol(
                        "directed-long-histories",
                        i,
                        format!("C15/panic@{}", pn.site()),
                        format!("operation {} {:?}: {}", k, a, pn.message),
                        case().set("operation_index", k),
                    ));
                    return;
                }
                apply_model(&mut m, a);
                let after = snapshot(&s, &m);
                if let Some(mm) = compare(a, &before, &after, &mut m, &model_before) {
                    rep.violation(viol(
                        "directed-long-histories",
                        i,
                        format!("C15/{}", mm.sig),
                        format!("operation {}: {}", k, mm.what),
                        case().set("operation_index", k),
                    ));
                    return;
                }
                if let Act::Changed(p, mid, con) = a {
                    // notifications built from the round are strictly ordered
                    let observed_before = before.get(*p).map(|x| !x.1.is_empty()).unwrap_or(false);
                    if let Some(r) = s.get_resource(p).filter(|_| observed_before) {
                        // (a round nobody observes builds no notification; whether it advances the number is open)
                        if let Some(prev) = last_obs_value {
                            if r.sequence <= prev {
                                rep.violation(viol("directed-long-histories", i, "C15/notifications-not-strictly-ordered", format!("sequence {} after {}", r.sequence, prev), case()));
                                return;
                            }
                        }
                        last_obs_value = Some(r.sequence);
                        for o in r.observers.iter().take(1) {
                            let nt = create_notification(*mid, o.token.clone(), r.sequence, vec![1], *con);
                            if nt.get_token() != &o.token[..] || nt.get_observe_value() != Some(Ok(r.sequence)) {
                                rep.violation(viol("directed-long-histories", i, "C15/notification-fields", "notification does not carry the observer's token / the sequence", case()));
                                return;
                            }
                        }
                    }
                    for (ep, _, _, _) in &before.get(*p).map(|x| x.1.clone()).unwrap_or_default() {
                        if !after.get(*p).map(|x| x.1.iter().any(|o| o.0 == *ep)).unwrap_or(false) {
                            evicted_at.push((*ep, k));
                        }
                    }
                }
            }
            rep.count("history-agrees-with-model");
            rep.bucket(&("dir", limit, pat, evicted_at.len()));
            if ctx.want_sample(i, n) || i == 0 {
                rep.sample(case().set("family", "directed-long-histories").set("operations", ops.len()).set("evictions(endpoint,op_index)", format!("{:?}", evicted_at)));
            }
        },
    );
}

fn notifications(ctx: &Ctx, rep: &mut Report) {
    let seqs: [u32; 12] = [0, 1, 255, 256, 65535, 65536, (1 << 24) - 1, 1 << 24, u32::MAX - 1, u32::MAX, 0x0100_0000 + 1, 0x00FF_FF00];
    let mids: [u16; 4] = [0, 1, 0x8000, 0xFFFF];
    let radices = [9u64, seqs.len() as u64, 2, mids.len() as u64, 3];
    let n = product(&radices);
    ctx.family(
        rep,
        "notification-builder",
        "create_notification: token length 0..=8 x sequence over byte-length boundaries x CON/NON x message id {0,1,0x8000,0xFFFF} x payload {empty,[0xFF],40 bytes}: fields, minimal big-endian Observe value, wire image == reference",
        n,
        true,
        |i, rep| {
            let d = decode(i, &radices);
            let token = pattern(d[0] as usize, 0x3C);
            let seq = seqs[d[1] as usize];
            let con = d[2] == 0;
            let mid = mids[d[3] as usize];
            let payload = match d[4] {
                0 => vec![],
                1 => vec![0xFF],
                _ => pattern(40, 2),
            };
            let expect = RefMsg {
                version: 1,
                mtype: if con { 0 } else { 1 },
                token: token.clone(),
                code: 0x45,
                mid,
                options: vec![(6, refmodel::uint::enc(seq as u128))],
                payload: payload.clone(),
            };
            let r = guard(|| {
                let p = create_notification(mid, token.clone(), seq, payload.clone(), con);
                let wire = p.to_bytes();
                (to_ref(&p), wire)
            });
            match r {
                Err(pn) => rep.violation(viol("notification-builder", i, format!("C15/panic@{}", pn.site()), pn.message, msg_json(&expect))),
                Ok((got, wire)) => {
                    if got != expect {
                        rep.violation(viol("notification-builder", i, "C15/notification-fields", crate::c01::describe_diff(&got, &expect), msg_json(&expect)));
                    } else if wire.as_ref().ok() != Some(&codec::enc(&expect).unwrap()) {
                        rep.violation(viol("notification-builder", i, "C15/notification-wire-image", "encoded notification differs from the reference image", msg_json(&expect)));
                    } else {
                        rep.count("notification-ok");
                        rep.bucket(&("ntf", d[0], refmodel::uint::enc(seq as u128).len(), con, d[4]));
                    }
                }
            }
        },
    );
}

/// 2^24 + 8 notification rounds on one observed resource: the sequence number grows by exactly one every time
/// (also across the 24-bit boundary of the Observe option's wire size).
fn long_run(ctx: &Ctx, rep: &mut Report) {
    let n = 2u64;
    ctx.family(
        rep,
        "long-run-sequence",
        "16 777 224 (2^24 + 8) consecutive rounds on one observed resource, non-confirmable / confirmable-with-acknowledgement: sequence +1 on every round, observer stays",
        n,
        true,
        |i, rep| {
            let con = i == 1;
            let mut s: Subject<Ep> = Subject::default();
            s.set_unacknowledged_limit(3);
            s.register(&request(1, &[7], P1, 1));
            let rounds: u32 = (1 << 24) + 8;
            let ack = request(1, &[], "", 77);
            for r in 0..rounds {
                let before = s.get_resource(P1).map(|x| x.sequence);
                if let Err(pn) = guard(|| s.resource_changed(P1, 77, con)) {
                    rep.violation(viol("long-run-sequence", i, format!("C15/panic@{}", pn.site()), format!("round {}: {}", r + 1, pn.message), Json::obj().set("round", r + 1)));
                    return;
                }
                if con {
                    s.acknowledge(&ack);
                }
                let after = s.get_resource(P1).map(|x| (x.sequence, x.observers.len()));
                if after != before.map(|b| (b.wrapping_add(1), 1)) || before.map(|b| b == u32::MAX).unwrap_or(true) {
                    rep.violation(viol(
                        "long-run-sequence",
                        i,
                        "C15/sequence-not-incremented-by-one",
                        format!("round {}: sequence went from {:?} to {:?} (sequence, observers)", r + 1, before, after),
                        Json::obj().set("round", r + 1).set("confirmable", con),
                    ));
                    return;
                }
                if r & 0xFFFF == 0 {
                    mccore::guard::tick();
                }
            }
            rep.count("long-run-ok");
            rep.bucket(&("long", con));
            rep.sample(Json::obj().set("family", "long-run-sequence").set("rounds", rounds).set("confirmable", con));
        },
    );
}

fn notification_sequences(ctx: &Ctx, rep: &mut Report) {
    // every sequence number 0..=70000 and the neighbourhoods of 2^24 and 2^32
    let mut extra: Vec<u32> = Vec::new();
    for c in [1u32 << 24, u32::MAX - 300] {
        for d in 0..600u32 {
            extra.push(c.wrapping_sub(300).wrapping_add(d));
        }
    }
    let n = 70_001u64 + extra.len() as u64;
    ctx.family(rep, "notification-sequence-sweep", "create_notification for every sequence number 0..=70000 and 600 values around 2^24 and below 2^32: Observe value is the minimal big-endian number, wire image == reference", n, true, |i, rep| {
        let seq: u32 = if i <= 70_000 { i as u32 } else { extra[(i - 70_001) as usize] };
        let expect = RefMsg { version: 1, mtype: 1, token: vec![0xAB, 0xCD], code: 0x45, mid: 0x7777, options: vec![(6, refmodel::uint::enc(seq as u128))], payload: vec![1, 2] };
        match guard(|| {
            let p = create_notification(0x7777, vec![0xAB, 0xCD], seq, vec![1, 2], false);
            (to_ref(&p), p.to_bytes())
        }) {
            Ok((got, wire)) if got == expect && wire.as_ref().ok() == Some(&codec::enc(&expect).unwrap()) => {
                if seq % 4096 == 0 {
                    rep.bucket(&("nseq", refmodel::uint::enc(seq as u128).len()));
                }
                rep.count("notification-ok");
            }
            other => rep.violation(viol("notification-sequence-sweep", i, "C15/notification-fields", format!("sequence {}: {:?}", seq, other.map(|x| x.0.options)), Json::obj().set("sequence", seq))),
        }
    });
}

pub fn run_c15(ctx: &Ctx, rep: &mut Report) {
    repeat_then_probe(Prop::C15, ctx, rep);
    for l in [0u8, 1, 2] {
        bfs_limit(Prop::C15, ctx, rep, l, false, 0);
    }
    bfs_limit(Prop::C15, ctx, rep, 1, false, 1);
    bfs_limit(Prop::C15, ctx, rep, 0, false, 2);
    if ctx.thorough() {
        bfs_limit(Prop::C15, ctx, rep, 3, false, 0);
        bfs_limit(Prop::C15, ctx, rep, 2, false, 1);
        bfs_limit(Prop::C15, ctx, rep, 1, true, 0);
        bfs_limit(Prop::C15, ctx, rep, 1, false, 2);
        bfs_limit(Prop::C15, ctx, rep, 0, false, 3);
        if ctx.config == "oc" {
            bfs_limit(Prop::C15, ctx, rep, 1, false, 3);
        }
    }
    directed(ctx, rep);
    long_run(ctx, rep);
    notifications(ctx, rep);
    notification_sequences(ctx, rep);
    rep.assume("refmodel::subject is the trusted reference; the sequence number of a round nobody observes follows the implementation");
    rep.assume("the 32-bit sequence counter itself is not driven to its limit (2^32 rounds); directed scripts have 600 rounds; the long-run family has 2^24 + 8 rounds");
}
