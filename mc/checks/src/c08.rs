//! C08 — Block2: a client fetching blocks in order reassembles exactly the body.
//!
//! Every case is a complete transfer through the real handler via encoded bytes
//! (E1 over body x budget x options x start state, E3 over client strategies:
//! early negotiation and mid-transfer size reductions are the deviations).

use crate::blockwise::*;
use mccore::{decode, product, viol, Ctx, Json, Report};
use refmodel::block as rb;
use std::time::Duration;

#[derive(Clone, Copy, Debug, PartialEq)]
pub struct Strategy {
    /// SZX sent in the first request (early negotiation), if any.
    pub early: Option<u8>,
    /// (k, szx): from the k-th follow-up request on, ask for this smaller size.
    pub reduce: Option<(usize, u8)>,
    /// a second reduction (thorough)
    pub reduce2: Option<(usize, u8)>,
}

pub fn option_sets() -> Vec<Vec<(u16, Vec<u8>)>> {
    vec![
        vec![],
        vec![(4, vec![0xE7, 0xA6])],
        vec![(12, vec![42]), (14, vec![0x01, 0x2C]), (4, vec![1, 2, 3, 4])],
        vec![(8, b"loc".to_vec()), (8, b"ation".to_vec()), (8, b"path".to_vec())],
    ]
}

pub struct Case {
    pub budget: usize,
    pub body_len: usize,
    pub strat: Strategy,
    pub optset: usize,
    pub start: u8,
    /// request type: 0 CON, 1 NON
    pub mtype: u8,
    /// response code the application sets
    pub app_code: u8,
}

fn case_json(c: &Case) -> Json {
    Json::obj()
        .set("budget", c.budget)
        .set("body_len", c.body_len)
        .set("early_szx", c.strat.early)
        .set("reduce", c.strat.reduce.map(|r| format!("{:?}", r)))
        .set("reduce2", c.strat.reduce2.map(|r| format!("{:?}", r)))
        .set("option_set", c.optset)
        .set("start_state", c.start)
        .set("request_type", c.mtype)
        .set("application_code", refmodel::registries::dotted(c.app_code))
}

const TOKEN_LEN: usize = 4;

fn get_t(mtype: u8, method: u8, mid: u16, path: &[&str], block2: Option<(u32, bool, u8)>) -> Vec<u8> {
    let token = [(mid >> 8) as u8, mid as u8, 0x5A, 0xA5];
    // FETCH and POST carry a (small) request body in every request of the transfer
    let body: &[u8] = if method == 0x01 { &[] } else { &[0x7B, 0x7D] };
    request_bytes(mtype, method, mid, &token, path, &[], None, block2, body)
}

/// Runs one complete transfer; returns Err((signature, what)) on the first oracle failure.
pub fn transfer(c: &Case, rep: &mut Report) -> Result<&'static str, (String, String)> {
    let opts = option_sets()[c.optset].clone();
    let the_body = body(c.body_len, 0x21);
    let other_body = body(200, 0x77);
    let mut srv = Server::new(c.budget, Duration::from_secs(3600));
    clock::reset();
    let mtype = c.mtype;
    let app_code = c.app_code;
    // the method rides on the application option set (no extra dimension): GET, GET, FETCH, POST, GET, ...
    let method: u8 = [0x01, 0x01, 0x05, 0x02][c.optset % 4];
    let get = move |mid: u16, path: &[&str], block2: Option<(u32, bool, u8)>| get_t(mtype, method, mid, path, block2);
    let app_opts = opts.clone();
    // start state 2 runs the transfer under test on the two-segment resource /r/s, so that resources whose paths
    // coincide with it once the segments are joined, re-split or reordered are really different keys
    let two_segments = c.start == 2;
    let tp: &[&str] = if two_segments { &["r", "s"] } else { &["r"] };
    let app = |call: &AppCall| -> AppReply {
        // the resource "r" serves the body under test, everything else serves another body
        let path: Vec<&[u8]> = call.request.options.iter().filter(|o| o.0 == 11).map(|o| &o.1[..]).collect();
        let on_test_path = if two_segments { path.len() == 2 && path[0] == b"r" && path[1] == b"s" } else { path.len() == 1 && path[0] == b"r" };
        if on_test_path && call.ep == 1 && call.request.mid >= 1000 && call.request.code == method {
            AppReply { code: app_code, options: app_opts.clone(), payload: the_body.clone() }
        } else {
            AppReply { code: 0x45, options: vec![], payload: other_body.clone() }
        }
    };
    let mut mid: u16 = 10;
    let mut next_mid = |m: &mut u16| {
        *m += 1;
        *m
    };
    // ---- start state
    let mut start = c.start;
    if matches!(start, 3 | 5 | 6) && c.strat.early.is_some() {
        start = 0; // outside the quantifier: a transfer starting with Block2 while one is unfinished
    }
    match start {
        1 => {
            // a complete earlier transfer on the same key
            let x = srv.exchange(1, &get(next_mid(&mut mid), &["r"], None), &app);
            let mut m = x.reply.as_deref().and_then(parse_reply);
            let mut guard_n = 0;
            while let Some(r) = &m {
                match block_opt(r, 23) {
                    Some((num, true, szx)) => {
                        let x = srv.exchange(1, &get(next_mid(&mut mid), &["r"], Some((num + 1, false, szx))), &app);
                        m = x.reply.as_deref().and_then(parse_reply);
                    }
                    _ => break,
                }
                guard_n += 1;
                if guard_n > 100 {
                    break;
                }
            }
        }
        2 => {
            // unfinished transfers under other keys (other path; other endpoint)
            srv.exchange(1, &get(next_mid(&mut mid), &["other"], None), &app);
            srv.exchange(2, &get(next_mid(&mut mid), tp, None), &app);
            // ... and under paths that differ from the one under test only by an empty segment, by where the
            // segment boundary lies, or by the order of the segments (different resources)
            for other in [&["r", "s", ""][..], &["", "r", "s"], &["r", "", "s"], &["r/s"], &["rs"], &["r"], &["s"], &["s", "r"], &["r", "s", "s"], &["r", ""], &["", "r"]] {
                srv.exchange(1, &get(next_mid(&mut mid), other, None), &app);
            }
        }
        3 => {
            srv.exchange(1, &get(next_mid(&mut mid), &["r"], None), &app);
        }
        5 | 6 => {
            // an unfinished transfer on the key that was abandoned after one (5) or two (6) follow-up blocks had been
            // served from the cache
            let x = srv.exchange(1, &get(next_mid(&mut mid), &["r"], None), &app);
            let mut m = x.reply.as_deref().and_then(parse_reply);
            for _ in 0..(start - 4) {
                match m.as_ref().and_then(|r| block_opt(r, 23)) {
                    Some((num, true, szx)) => {
                        let x = srv.exchange(1, &get(next_mid(&mut mid), &["r"], Some((num + 1, false, szx))), &app);
                        m = x.reply.as_deref().and_then(parse_reply);
                    }
                    _ => break,
                }
            }
        }
        _ => {}
    }
    let calls_before = srv.app_calls.len();
    // ---- the transfer under test (message ids >= 1000 select the body under test)
    mid = 1000;
    let first_b2 = c.strat.early.map(|s| (0u32, false, s));
    let x = srv.exchange(1, &get(mid, tp, first_b2), &app);
    rep.visit(&srv.snapshot());
    let mut received: Vec<u8> = Vec::new();
    let mut followups = 0usize;
    let mut cur_pref: Option<u8> = c.strat.early;
    let mut last_szx: Option<u8> = None;
    let mut x = x;
    let mut unfragmented = false;
    loop {
        if let Some((stage, pn)) = &x.panic {
            return Err((format!("C08/panic@{}", pn.site()), format!("{:?}: {}", stage, pn.message)));
        }
        let reply = match x.reply.as_deref().and_then(parse_reply) {
            Some(r) => r,
            None => return Err(("C08/no-reply".into(), format!("no decodable reply to request {} ({} follow-ups so far)", mid, followups))),
        };
        if let Some((stage, code, msg, _)) = &x.error {
            let sig = if c.body_len == 0 && c.strat.early.is_some() { "C08/empty-body-with-early-negotiation-fails" } else { "C08/transfer-fails-with-error" };
            return Err((sig.into(), format!("{:?} returned an error {:?} {:?} at request {}", stage, code.map(refmodel::registries::dotted), msg, mid)));
        }
        if followups == 0 {
            if !x.app_invoked {
                return Err(("C08/application-not-consulted".into(), "the first request of the transfer did not reach the application".into()));
            }
        } else if x.app_invoked {
            return Err(("C08/follow-up-reached-application".into(), format!("follow-up request {} was passed to the application instead of being served from the cache", followups)));
        }
        if reply.code != c.app_code {
            return Err(("C08/block-code-differs".into(), format!("block reply has code {}, the application set {}", refmodel::registries::dotted(reply.code), refmodel::registries::dotted(c.app_code))));
        }

        let mut exp_opts: Vec<(u32, Vec<u8>)> = opts.iter().map(|o| (o.0 as u32, o.1.clone())).collect();
        exp_opts.sort_by_key(|o| o.0);
        if opts_without(&reply, &[23]) != exp_opts {
            return Err((
                "C08/application-options-not-repeated".into(),
                format!("block after {} bytes carries options {:?}, the application set {:?}", received.len(), opts_without(&reply, &[23]), exp_opts),
            ));
        }
        match block_opt(&reply, 23) {
            None => {
                if reply.options.iter().any(|o| o.0 == 23) {
                    return Err(("C08/undecodable-block2-option".into(), "reply carries a Block2 option that does not decode".into()));
                }
                if followups > 0 {
                    return Err(("C08/block2-option-missing".into(), format!("reply to a Block2 request (follow-up {}) carries no Block2 option", followups)));
                }
                // (a first reply without a Block2 option - also to an early-negotiation request - is an unfragmented
                // response: it must then carry the whole body, which is checked below)
                // unfragmented
                received.extend_from_slice(&reply.payload);
                unfragmented = true;
                break;
            }
            Some((num, more, szx)) => {
                let size = rb::size(szx);
                if szx > 6 {
                    return Err(("C08/reserved-szx".into(), format!("server used SZX {}", szx)));
                }
                if let Some(p) = cur_pref {
                    if szx > p {
                        return Err(("C08/block-larger-than-requested".into(), format!("client asked for SZX {}, server used {}", p, szx)));
                    }
                    if followups > 0 && szx != p {
                        return Err(("C08/follow-up-size-changed".into(), format!("follow-up asked for SZX {}, server answered with {}", p, szx)));
                    }
                }
                if num as usize * size != received.len() {
                    return Err((
                        "C08/block-number-disagrees-with-offset".into(),
                        format!("block num {} x size {} != {} bytes received before it", num, size, received.len()),
                    ));
                }
                if more && reply.payload.len() != size {
                    return Err(("C08/non-final-block-size".into(), format!("non-final block carries {} bytes, block size is {}", reply.payload.len(), size)));
                }
                if !more && reply.payload.len() > size {
                    return Err(("C08/final-block-too-long".into(), format!("final block carries {} bytes, block size is {}", reply.payload.len(), size)));
                }
                received.extend_from_slice(&reply.payload);
                last_szx = Some(szx);
                if received.len() > c.body_len + 4096 {
                    return Err(("C08/transfer-does-not-end".into(), format!("received {} bytes for a body of {}", received.len(), c.body_len)));
                }
                if !more {
                    break;
                }
                // next request
                followups += 1;
                let mut ask = szx;
                for red in [c.strat.reduce, c.strat.reduce2].iter().flatten() {
                    if followups >= red.0 && red.1 < ask {
                        ask = red.1;
                    }
                }
                cur_pref = Some(ask);
                if c.start == 4 && followups == 1 {
                    // 300 requests on 300 other keys arrive before the first follow-up (well inside the lifetime)
                    for j in 0..300u32 {
                        let p = format!("burst{}", j);
                        srv.exchange(2 + j % 3, &get(20 + j as u16, &[&p], None), &app);
                    }
                }
                let next_num = (received.len() / rb::size(ask)) as u32;
                mid += 1;
                x = srv.exchange(1, &get(mid, tp, Some((next_num, false, ask))), &app);
                rep.visit(&srv.snapshot());
            }
        }
    }
    if received != the_body {
        let at = received.iter().zip(the_body.iter()).position(|(a, b)| a != b).unwrap_or(received.len().min(the_body.len()));
        return Err((
            "C08/reassembled-body-differs".into(),
            format!("reassembled {} bytes, body has {} bytes, first difference at offset {}", received.len(), the_body.len(), at),
        ));
    }
    let own_calls = srv.app_calls[calls_before..]
        .iter()
        .filter(|c| c.ep == 1 && c.request.mid >= 1000 && c.request.options.iter().filter(|o| o.0 == 11).map(|o| &o.1[..]).collect::<Vec<_>>() == tp.iter().map(|s| s.as_bytes()).collect::<Vec<_>>())
        .count();
    if own_calls != 1 {
        return Err(("C08/application-consulted-more-than-once".into(), format!("{} application calls for one transfer", own_calls)));
    }
    // ---- cache released: a new request with Block2 num 0 reaches the application again
    // start state 3: if the new transfer was served in one message it installed no cache entry of its own, so the
    // older unfinished transfer is still cached and a further Block2 request would be "a transfer starting with
    // Block2 while an unfinished one is cached" - outside the quantifier
    let stale_possible = matches!(start, 3 | 5 | 6) && followups == 0;
    if !stale_possible {
        let szx = last_szx.unwrap_or(2);
        mid += 1;
        let x = srv.exchange(1, &get(mid, tp, Some((0, false, szx))), &app);
        rep.visit(&srv.snapshot());
        if let Some((stage, pn)) = &x.panic {
            return Err((format!("C08/panic@{}", pn.site()), format!("{:?}: {}", stage, pn.message)));
        }
        if !x.app_invoked {
            return Err(("C08/cache-not-released-after-final-block".into(), "a new Block2 num=0 request after the final block was answered from the cache".into()));
        }
    }
    Ok(if unfragmented { "unfragmented" } else if followups == 0 { "single-block" } else { "multi-block" })
}

fn strategies_small() -> Vec<Strategy> {
    let n = |early, reduce| Strategy { early, reduce, reduce2: None };
    vec![
        n(None, None),
        n(Some(0), None),
        n(Some(1), None),
        n(Some(2), None),
        n(Some(6), None),
        n(None, Some((1, 0))),
        n(None, Some((2, 0))),
        n(Some(1), Some((1, 0))),
        n(None, Some((2, 1))),
    ]
}

fn strategies_all(thorough: bool) -> Vec<Strategy> {
    let mut v = vec![Strategy { early: None, reduce: None, reduce2: None }];
    for s in 0..=6u8 {
        v.push(Strategy { early: Some(s), reduce: None, reduce2: None });
    }
    for at in [1usize, 2] {
        for s in 0..=5u8 {
            v.push(Strategy { early: None, reduce: Some((at, s)), reduce2: None });
        }
    }
    for s in [0u8, 2, 4] {
        v.push(Strategy { early: Some(6), reduce: Some((1, s)), reduce2: None });
    }
    // a reduction at the 3rd / 5th follow-up
    for (at, s) in [(3usize, 0u8), (3, 3), (5, 1)] {
        v.push(Strategy { early: None, reduce: Some((at, s)), reduce2: None });
    }
    if thorough {
        for (a, b) in [(4u8, 2u8), (5, 0), (3, 1), (2, 0), (6, 3)] {
            v.push(Strategy { early: None, reduce: Some((1, a)), reduce2: Some((2, b)) });
            v.push(Strategy { early: Some(6), reduce: Some((1, a)), reduce2: Some((3, b)) });
        }
    }
    v
}

fn run_case(fam: &str, i: u64, n: u64, c: &Case, ctx: &Ctx, rep: &mut Report) {
    match mccore::guard(|| {
        let mut local = Report::new();
        let r = transfer(c, &mut local);
        (r, local)
    }) {
        Err(pn) => rep.violation(viol(fam, i, format!("MACHINERY-or-C08/harness-panic@{}", pn.site()), pn.message, case_json(c))),
        Ok((r, local)) => {
            rep.transitions += local.transitions;
            rep.traces_validated += local.traces_validated;
            rep.state_set.extend(local.state_set);
            match r {
                Ok(class) => {
                    rep.count(class);
                    rep.bucket(&(class, c.body_len.min(200), c.strat.early, c.strat.reduce, c.optset, c.start, (c.budget as i64 - 1152).signum()));
                }
                Err((sig, what)) => {
                    rep.count("violation");
                    rep.violation(viol(fam, i, sig, what, case_json(c)));
                }
            }
        }
    }
    if ctx.want_sample(i, n) {
        rep.sample(Json::obj().set("family", fam).set("index", i).set("case", case_json(c)));
    }
}

pub fn run(ctx: &Ctx, rep: &mut Report) {
    let osets = option_sets();
    // ---- family A: small block sizes, every body length
    {
        let strats = strategies_small();
        let optsets: Vec<usize> = if ctx.thorough() { vec![0, 1, 2, 3] } else { vec![0, 2] };
        let starts: Vec<u8> = if ctx.thorough() { vec![0, 1, 2, 3, 4, 5, 6] } else { vec![0, 2, 3, 5] };
        let radices = [65u64, 99, strats.len() as u64, optsets.len() as u64, starts.len() as u64];
        let n = product(&radices);
        ctx.family(
            rep,
            "A-every-length-small-blocks",
            "budget = overhead+28 .. overhead+92 (every value: block sizes 16, 32 and 64 with every slack) x body length 0..=98 (every value) x 9 client strategies (no preference, early SZX 0/1/2/6, reductions at the 1st/2nd follow-up) x application option sets (request type CON/NON and response code 2.05/2.04/4.04 vary with the option set) x start states {fresh, completed transfer on the key, unfinished transfers on other keys (other endpoint; 12 other paths incl. ones that equal the two-segment path under test after joining, re-splitting or reordering segments), unfinished transfer on the key (abandoned after block 0 / after one or two follow-ups served from the cache) + start without Block2; thorough: 300 requests on other keys between block 0 and block 1}; each a complete transfer",
            n,
            true,
            |i, rep| {
                let d = decode(i, &radices);
                let optset = optsets[d[3] as usize];
                let ovh = reply_overhead(TOKEN_LEN, &osets[optset]);
                // request type and response code vary with the option set (no extra dimension in this family)
                let (mtype, app_code) = [(0u8, 0x45u8), (0, 0x44), (1, 0x45), (0, 0x84)][optset];
                let c = Case { budget: ovh + 28 + d[0] as usize, body_len: d[1] as usize, strat: strats[d[2] as usize], optset, start: starts[d[4] as usize], mtype, app_code };
                run_case("A-every-length-small-blocks", i, n, &c, ctx, rep);
            },
        );
    }
    // ---- family B: budgets around every power of two, boundary body lengths, all strategies
    {
        let strats = strategies_all(ctx.thorough());
        let mut bodies: Vec<usize> = vec![0, 1];
        for k in 4..=10u32 {
            let bs = 1usize << k;
            bodies.extend([bs - 1, bs, bs + 1, 2 * bs - 1, 2 * bs, 2 * bs + 1, 3 * bs + 1]);
        }
        bodies.push(20_000);
        bodies.sort();
        bodies.dedup();
        // budget offsets relative to overhead: +-2 around 12 + 2^k, plus absolute 1152 and 1280
        let mut rel: Vec<i64> = Vec::new();
        for k in 4..=10u32 {
            for dlt in -2i64..=2 {
                rel.push(12 + (1i64 << k) + dlt);
            }
        }
        let optsets: Vec<usize> = if ctx.thorough() { vec![0, 1, 2, 3] } else { vec![0, 3] };
        let starts: Vec<u8> = if ctx.thorough() { vec![0, 1, 2, 3, 4, 5, 6] } else { vec![0, 1, 4, 6] };
        if ctx.thorough() {
            bodies.push(70_000); // more than 4096 blocks of 16 bytes: three-byte Block2 values
        }
        let variants: Vec<(u8, u8)> = if ctx.thorough() { vec![(0, 0x45), (1, 0x45), (0, 0x84), (1, 0x44)] } else { vec![(0, 0x45), (1, 0x84)] };
        let nb = rel.len() as u64 + 2;
        let radices = [nb, bodies.len() as u64, strats.len() as u64, optsets.len() as u64, starts.len() as u64, variants.len() as u64];
        let n = product(&radices);
        ctx.family(
            rep,
            "B-power-of-two-boundaries",
            "budget = overhead+12+2^k-2 .. +2 for k=4..10 (values below overhead+28 skipped), 1152 and 1280 x body lengths {0, 1, bs-1, bs, bs+1, 2bs-1, 2bs, 2bs+1, 3bs+1 for bs=16..1024, 20000} x all client strategies (no preference, early SZX 0..6, reduction to every smaller SZX at the 1st or 2nd follow-up; thorough: two reductions) x option sets x start states x request type / response code {CON 2.05, NON 4.04; thorough: CON/NON x 2.05/2.04/4.04}; thorough adds a 70000-byte body at 16-byte blocks",
            n,
            true,
            |i, rep| {
                let d = decode(i, &radices);
                let optset = optsets[d[3] as usize];
                let ovh = reply_overhead(TOKEN_LEN, &osets[optset]);
                let budget = if (d[0] as usize) < rel.len() { (ovh as i64 + rel[d[0] as usize]) as usize } else if d[0] as usize == rel.len() { 1152 } else { 1280 };
                if budget < ovh + 28 {
                    rep.count("skipped-budget-below-overhead+28");
                    return;
                }
                let (mtype, app_code) = variants[d[5] as usize];
                if bodies[d[1] as usize] == 70_000 && (budget > ovh + 12 + 34 || d[2] > 8 || d[4] > 0 || d[5] > 1) {
                    rep.count("skipped-70000-byte-body-only-with-16-byte-blocks");
                    return;
                }
                let c = Case { budget, body_len: bodies[d[1] as usize], strat: strats[d[2] as usize], optset, start: starts[d[4] as usize], mtype, app_code };
                if d[4] > 0 && d[5] > 1 {
                    rep.count("skipped-type/code-variants-3-4-only-from-the-fresh-start-state");
                    return;
                }
                if c.start == 4 && (d[2] % 4 != 0 || c.body_len > 3000) {
                    rep.count("skipped-burst-start-state-thinned");
                    return;
                }
                run_case("B-power-of-two-boundaries", i, n, &c, ctx, rep);
            },
        );
    }
    rep.assume("the client is written against the reference codec only; requests are encoded by refmodel::codec::enc, parsed by the crate on the server side, replies encoded by the crate and parsed by refmodel::codec::parse");
    rep.assume("a transfer that starts with a Block2 option while an unfinished transfer for the same key is cached is outside the quantifier and not generated");
    rep.assume("states = distinct handler cache snapshots (hook) observed after an exchange; transitions = exchanges of the transfers under test");
}
