//! coapmc — one subcommand per property.  Usage:
//!   coapmc <ID> --tier quick|thorough --seed N --config NAME --out FILE
//!          [--only FAMILY:INDEX] [--history FAMILY:a,b,c] [--verbose] [--threads N]
//! Exit codes: 0 ran to completion (violations are in the report), 2 machinery
//! failure, 3 watchdog (non-termination; the stalled case is in the report file).

use mccore::{Ctx, Json, Report, Tier};
use std::time::{Duration, Instant};

mod common;

mod c01;
mod c02_c03;
mod c04;
mod c05;
mod c06;
mod c07;
#[cfg(feature = "std")]
mod c13;
mod c19;
#[cfg(feature = "std")]
mod blockwise;
#[cfg(feature = "std")]
mod c08;
#[cfg(feature = "std")]
mod c09;
#[cfg(feature = "std")]
mod c10;
#[cfg(feature = "std")]
mod c11;
#[cfg(feature = "std")]
mod c12;
#[cfg(feature = "std")]
mod c20;
mod linkfmt;
mod observe;

type CheckFn = fn(&Ctx, &mut Report);

fn table() -> Vec<(&'static str, CheckFn)> {
    let mut t: Vec<(&'static str, CheckFn)> = Vec::new();
    t.push(("C01", c01::run));
    t.push(("C02", c02_c03::run_c02));
    t.push(("C03", c02_c03::run_c03));
    t.push(("C04", c04::run));
    t.push(("C05", c05::run));
    t.push(("C06", c06::run));
    t.push(("C07", c07::run));
    #[cfg(feature = "std")]
    {
        t.push(("C08", c08::run));
        t.push(("C09", c09::run));
        t.push(("C10", c10::run));
        t.push(("C11", c11::run));
        t.push(("C12", c12::run));
        t.push(("C20", c20::run));
        t.push(("C13", c13::run));
    }
    t.push(("C14", observe::run_c14));
    t.push(("C15", observe::run_c15));
    t.push(("C16", linkfmt::run_c16));
    t.push(("C19", c19::run));
    t.push(("C17", linkfmt::run_c17));
    t.push(("C18", linkfmt::run_c18));
    t
}

fn main() {
    let args: Vec<String> = std::env::args().collect();
    if args.len() < 2 {
        eprintln!("usage: coapmc <ID> [--tier quick|thorough] [--seed N] [--config NAME] [--out FILE] [--only F:I] [--history F:a,b] [--verbose]");
        std::process::exit(2);
    }
    let id = args[1].clone();
    let mut ctx = Ctx {
        tier: Tier::Quick,
        seed: 0,
        config: "oc".to_string(),
        threads: std::thread::available_parallelism().map(|n| n.get()).unwrap_or(4),
        only: None,
        only_history: None,
        verbose: false,
    };
    let mut out: Option<String> = None;
    let mut i = 2;
    while i < args.len() {
        let need = |i: usize| -> String {
            args.get(i + 1).cloned().unwrap_or_else(|| {
                eprintln!("missing value for {}", args[i]);
                std::process::exit(2)
            })
        };
        match args[i].as_str() {
            "--tier" => {
                ctx.tier = if need(i) == "thorough" { Tier::Thorough } else { Tier::Quick };
                i += 1;
            }
            "--seed" => {
                ctx.seed = need(i).parse().unwrap_or(0);
                i += 1;
            }
            "--config" => {
                ctx.config = need(i);
                i += 1;
            }
            "--threads" => {
                ctx.threads = need(i).parse().unwrap_or(1).max(1);
                i += 1;
            }
            "--out" => {
                out = Some(need(i));
                i += 1;
            }
            "--only" => {
                let v = need(i);
                let (f, n) = v.rsplit_once(':').expect("--only FAMILY:INDEX");
                ctx.only = Some((f.to_string(), n.parse().expect("index")));
                i += 1;
            }
            "--history" => {
                let v = need(i);
                let (f, h) = v.rsplit_once(':').expect("--history FAMILY:a,b,c");
                let h: Vec<usize> =
                    if h.is_empty() { vec![] } else { h.split(',').map(|x| x.parse().expect("action index")).collect() };
                ctx.only_history = Some((f.to_string(), h));
                i += 1;
            }
            "--known" => {
                let v = need(i);
                let list: Vec<String> = v.split(',').filter(|x| !x.is_empty()).map(|x| x.to_string()).collect();
                let _ = mccore::report::KNOWN_SIGNATURES.set(list);
                i += 1;
            }
            "--verbose" => ctx.verbose = true,
            other => {
                eprintln!("unknown argument {}", other);
                std::process::exit(2);
            }
        }
        i += 1;
    }
    let f = match table().into_iter().find(|(n, _)| *n == id) {
        Some((_, f)) => f,
        None => {
            // A property whose check is not compiled into this configuration
            // (e.g. block handler checks in the no-default-features build).
            eprintln!("property {} has no check in configuration {}", id, ctx.config);
            std::process::exit(2);
        }
    };
    mccore::guard::install_quiet_hook();
    common::asan_init();
    if ctx.config != "miri" {
        let out = out.clone();
        let id = id.clone();
        let cfg = ctx.config.clone();
        mccore::guard::start_watchdog(Duration::from_secs(20), move |label| {
            let j = Json::obj()
                .set("property_id", id.as_str())
                .set("config", cfg.as_str())
                .set("watchdog", true)
                .set("stalled_case", label.as_str());
            if let Some(o) = &out {
                let _ = std::fs::write(o, format!("{}\n", j));
            }
            eprintln!("WATCHDOG: no progress for 20 s in {}", label);
            std::process::exit(3);
        });
    }
    let t0 = Instant::now();
    let mut rep = Report::new();
    f(&ctx, &mut rep);
    if cfg!(feature = "nohooks") {
        rep.note("hooks_available", false);
        rep.assume("DEGRADED RUN: the cfg(coap_lite_verif) hooks did not compile against this tree, so the checks were built without them: cache snapshots are empty (C11's buffer-growth clause and C20's visible-bytes clause are not observed, block-handler searches enumerate to a fixed depth without state merging) and the Observe comparison covers public state only, the private counters being those of the reference model");
    }
    let wall = t0.elapsed().as_secs_f64();
    let j = Json::obj()
        .set("property_id", id.as_str())
        .set("config", ctx.config.as_str())
        .set("tier", if ctx.thorough() { "thorough" } else { "quick" })
        .set("seed", ctx.seed)
        .set("wall_s", wall)
        .set("threads", ctx.threads)
        .set("replay", ctx.replaying())
        .set("report", rep.to_json());
    match out {
        Some(o) => std::fs::write(&o, format!("{}\n", j)).expect("write report"),
        None => println!("{}", j),
    }
    if ctx.verbose || ctx.replaying() {
        eprintln!(
            "[{}] {}: evaluations={} states={} transitions={} violations={} wall={:.1}s",
            ctx.config, id, rep.evaluations, rep.states, rep.transitions, rep.violation_count, wall
        );
        for v in &rep.violations {
            eprintln!("  VIOLATION {} — {}\n    case: {}", v.signature, v.what, v.case);
        }
    }
}
