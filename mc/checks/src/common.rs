//! Glue between the crate's public API and the reference models.

use coap_lite::{CoapOption, MessageClass, MessageType, Packet};
use refmodel::codec::RefMsg;
use std::collections::LinkedList;

pub fn mtype_to_u8(t: MessageType) -> u8 {
    match t {
        MessageType::Confirmable => 0,
        MessageType::NonConfirmable => 1,
        MessageType::Acknowledgement => 2,
        MessageType::Reset => 3,
    }
}

pub fn u8_to_mtype(t: u8) -> MessageType {
    match t & 3 {
        0 => MessageType::Confirmable,
        1 => MessageType::NonConfirmable,
        2 => MessageType::Acknowledgement,
        _ => MessageType::Reset,
    }
}

/// The message a `Packet` denotes, read through public getters only.
pub fn to_ref(p: &Packet) -> RefMsg {
    let mut options = Vec::new();
    for (num, list) in p.options() {
        for v in list.iter() {
            options.push((*num as u32, v.clone()));
        }
    }
    RefMsg {
        version: p.header.get_version(),
        mtype: mtype_to_u8(p.header.get_type()),
        token: p.get_token().to_vec(),
        code: u8::from(p.header.code),
        mid: p.header.message_id,
        options,
        payload: p.payload.clone(),
    }
}

/// Builds a packet for `m` through the public API in canonical order
/// (header, token, options ascending, payload).
pub fn build(m: &RefMsg) -> Packet {
    let mut p = Packet::new();
    p.header.set_version(m.version);
    p.header.set_type(u8_to_mtype(m.mtype));
    p.header.code = MessageClass::from(m.code);
    p.header.message_id = m.mid;
    p.set_token(m.token.clone());
    for (n, v) in &m.options {
        p.add_option(CoapOption::from(*n as u16), v.clone());
    }
    p.payload = m.payload.clone();
    p
}

#[allow(dead_code)]
pub fn list_of(vs: &[Vec<u8>]) -> LinkedList<Vec<u8>> {
    vs.iter().cloned().collect()
}

/// Deterministic, position-dependent fill pattern that contains 0xFF and 0x00.
pub fn pattern(len: usize, salt: u8) -> Vec<u8> {
    (0..len)
        .map(|i| match i % 7 {
            0 => 0xFF,
            3 => 0x00,
            _ => (i as u8).wrapping_mul(31).wrapping_add(salt),
        })
        .collect()
}

pub fn msg_json(m: &RefMsg) -> mccore::Json {
    use mccore::{hex_short, Json};
    Json::obj()
        .set("version", m.version)
        .set("type", m.mtype)
        .set("token", hex_short(&m.token))
        .set("code", refmodel::registries::dotted(m.code))
        .set("mid", m.mid)
        .set(
            "options",
            Json::Arr(
                m.options
                    .iter()
                    .map(|(n, v)| Json::obj().set("number", *n).set("len", v.len()).set("value", hex_short(v)))
                    .collect(),
            ),
        )
        .set("payload_len", m.payload.len())
        .set("payload", hex_short(&m.payload))
}

// ---------------------------------------------------------------------------
// AddressSanitizer support (feature `asan`): remember the case being executed
// on this thread and print it from ASan's death callback, so that a report can
// be tied to a replayable case.
// ---------------------------------------------------------------------------
#[inline]
pub fn asan_case(_fam: &str, _idx: u64) {}

#[cfg(feature = "asan")]
extern "C" {
    fn __sanitizer_set_death_callback(cb: extern "C" fn());
}

#[cfg(feature = "asan")]
extern "C" fn asan_death() {
    eprintln!("ASAN-CASE {}", mccore::guard::current_case());
}

pub fn asan_init() {
    #[cfg(feature = "asan")]
    unsafe {
        __sanitizer_set_death_callback(asan_death);
    }
}
