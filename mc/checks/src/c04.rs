//! C04 — the serialiser enforces the size limit exactly and stays inside its buffers.
//!
//! E1 over messages x limits.  The same corpus is run in the `asan` build
//! configuration, where any AddressSanitizer report aborts the process and is
//! turned into a violation by the runner (memory-safety clause).

use crate::common::{build, msg_json, pattern};
use coap_lite::{error::MessageError, Packet};
use mccore::{decode, guard, product, viol, Ctx, Json, Report};
use refmodel::codec::{self, option_size, RefMsg};

fn limit_oracle(fam: &str, i: u64, n: u64, m: &RefMsg, ctx: &Ctx, rep: &mut Report) {
    limit_oracle_with(fam, i, n, m, None, ctx, rep)
}

/// `cleared`: an option number that is added and cleared again before the message's own options are added (its
/// emptied list may stay in the packet; it is not part of the message).
fn limit_oracle_with(fam: &str, i: u64, n: u64, m: &RefMsg, cleared: Option<u16>, ctx: &Ctx, rep: &mut Report) {
    crate::common::asan_case(fam, i);
    let reference = match codec::enc(m) {
        Ok(b) => b,
        Err(e) => {
            rep.violation(viol(fam, i, "MACHINERY/unencodable-model", format!("{:?}", e), msg_json(m)));
            return;
        }
    };
    let l = reference.len();
    let mut p = build(m);
    if let Some(c) = cleared {
        p.add_option(coap_lite::CoapOption::from(c), vec![0xC1, 0xEA]);
        p.clear_option(coap_lite::CoapOption::from(c));
    }
    let mut limits: Vec<usize> = vec![l, l + 1, 0, 3, 4, Packet::MAX_SIZE, Packet::MAX_SIZE - 1, Packet::MAX_SIZE + 1, usize::MAX];
    if l > 0 {
        limits.push(l - 1);
    }
    let mut ok = true;
    let mut check = |name: &str, limit: Option<usize>, r: Result<Result<Vec<u8>, MessageError>, mccore::Panicked>, rep: &mut Report| {
        let fits = limit.map_or(true, |x| l <= x);
        match r {
            Err(pn) => {
                ok = false;
                rep.violation(viol(
                    fam,
                    i,
                    format!("C04/panic@{}", pn.site()),
                    format!("{} with limit {:?}: {}", name, limit, pn.message),
                    msg_json(m).set("wire_length", l),
                ));
            }
            Ok(Ok(bytes)) => {
                if !fits {
                    ok = false;
                    rep.violation(viol(
                        fam,
                        i,
                        "C04/limit-not-enforced",
                        format!("{}: wire length {} exceeds limit {:?} but {} bytes were returned", name, l, limit, bytes.len()),
                        msg_json(m).set("wire_length", l).set("limit", limit),
                    ));
                } else if bytes != reference {
                    ok = false;
                    rep.violation(viol(
                        fam,
                        i,
                        "C04/output-differs-from-wire-image",
                        format!("{}: returned {} bytes, reference wire image has {} bytes", name, bytes.len(), l),
                        msg_json(m).set("wire_length", l).set("limit", limit),
                    ));
                }
            }
            Ok(Err(e)) => {
                if fits {
                    ok = false;
                    rep.violation(viol(
                        fam,
                        i,
                        format!("C04/refuses-message-that-fits/{:?}", e),
                        format!("{}: wire length {} fits limit {:?} but {:?} was returned", name, l, limit, e),
                        msg_json(m).set("wire_length", l).set("limit", limit),
                    ));
                } else if e != MessageError::InvalidPacketLength {
                    ok = false;
                    rep.violation(viol(
                        fam,
                        i,
                        format!("C04/wrong-error/{:?}", e),
                        format!("{}: over the limit must be a packet-length error, got {:?}", name, e),
                        msg_json(m).set("wire_length", l).set("limit", limit),
                    ));
                }
            }
        }
    };
    for &lim in &limits {
        let r = guard(|| p.to_bytes_with_limit(lim));
        check("to_bytes_with_limit", Some(lim), r, rep);
    }
    let r = guard(|| p.to_bytes());
    check("to_bytes", Some(Packet::MAX_SIZE), r, rep);
    let r = guard(|| p.to_bytes_unlimited());
    check("to_bytes_unlimited", None, r, rep);
    if ok {
        let rel = if l < Packet::MAX_SIZE {
            "below-max"
        } else if l == Packet::MAX_SIZE {
            "at-max"
        } else {
            "above-max"
        };
        rep.count(rel);
        rep.bucket(&(
            rel,
            m.token.len(),
            m.options.iter().map(|o| crate::c01::band(o.1.len())).collect::<Vec<_>>(),
            m.payload.len().min(2),
            m.code == 0,
            (l as i64 - Packet::MAX_SIZE as i64).clamp(-3, 3),
        ));
    } else {
        rep.count("violation");
    }
    if ctx.want_sample(i, n) {
        rep.sample(Json::obj().set("family", fam).set("index", i).set("wire_length", l).set("message", msg_json(m)));
    }
}

fn oversize_oracle(fam: &str, i: u64, m: &RefMsg, rep: &mut Report) {
    crate::common::asan_case(fam, i);
    let p = build(m);
    let reference = codec::enc(m);
    for (name, r) in [
        ("to_bytes_unlimited", guard(|| p.to_bytes_unlimited())),
        ("to_bytes_with_limit(200000)", guard(|| p.to_bytes_with_limit(200_000))),
    ] {
        let lens: Vec<usize> = m.options.iter().map(|o| o.1.len()).collect();
        match (&reference, r) {
            (_, Err(pn)) => {
                rep.count("violation");
                rep.violation(viol(fam, i, format!("C04/panic@{}", pn.site()), pn.message, Json::obj().set("value_lengths", lens)));
            }
            (Ok(refb), Ok(Ok(b))) => {
                if &b != refb {
                    rep.count("violation");
                    rep.violation(viol(
                        fam,
                        i,
                        "C04/output-differs-from-wire-image",
                        format!("{}: {} bytes vs reference {}", name, b.len(), refb.len()),
                        Json::obj().set("value_lengths", lens),
                    ));
                } else {
                    rep.count("longest-encodable-value-ok");
                    rep.bucket(&("ok", lens));
                }
            }
            (Ok(_), Ok(Err(e))) => {
                rep.count("violation");
                rep.violation(viol(
                    fam,
                    i,
                    format!("C04/refuses-message-that-fits/{:?}", e),
                    format!("{}: encodable message refused with {:?}", name, e),
                    Json::obj().set("value_lengths", lens),
                ));
            }
            (Err(_), Ok(Ok(b))) => {
                rep.count("violation");
                rep.violation(viol(
                    fam,
                    i,
                    "C04/oversize-option-value-emitted",
                    format!(
                        "{}: an option value longer than 65804 bytes cannot be expressed in the 16-bit extended length, yet {} bytes were emitted",
                        name,
                        b.len()
                    ),
                    Json::obj().set("value_lengths", lens),
                ));
            }
            (Err(_), Ok(Err(_))) => {
                rep.count("oversize-value-refused");
                rep.bucket(&("refused", lens));
            }
        }
    }
}

/// Option value length such that a message with `tkl` token bytes, one option with
/// the given number and (if `payload`) a marker + `payload` bytes has total length `target`.
fn steer_value_len(tkl: usize, number: usize, payload: usize, target: usize) -> Option<usize> {
    let fixed = 4 + tkl + if payload > 0 { 1 + payload } else { 0 };
    (0..=target).find(|&len| fixed + option_size(number, len) == target)
}

/// The boundary slice that is run under Miri (uninitialised-byte clause): ~200 messages around every
/// extension threshold and around MAX_SIZE, each through the limited, default and unlimited encoders.
fn miri_slice(ctx: &Ctx, rep: &mut Report) {
    let max = Packet::MAX_SIZE;
    let mut msgs: Vec<RefMsg> = Vec::new();
    for tkl in [0usize, 8] {
        for (num, len) in [(0u32, 0usize), (12, 12), (13, 13), (268, 268), (269, 269), (270, 300), (65535, 1)] {
            for pl in [0usize, 1, 17] {
                msgs.push(RefMsg { version: 1, mtype: 0, token: pattern(tkl, 1), code: 1, mid: 3, options: vec![(num, pattern(len, 2))], payload: pattern(pl, 3) });
            }
        }
        msgs.push(RefMsg { version: 1, mtype: 0, token: pattern(tkl, 1), code: 0, mid: 3, options: vec![], payload: pattern(9, 3) });
        msgs.push(RefMsg { version: 1, mtype: 0, token: pattern(tkl, 1), code: 1, mid: 3, options: vec![(1, vec![]), (1, pattern(13, 1)), (14, pattern(269, 1))], payload: vec![] });
        for d in 0..5usize {
            let target = max - 2 + d;
            let fixed = 4 + tkl + 1;
            msgs.push(RefMsg { version: 1, mtype: 1, token: pattern(tkl, 7), code: 0x45, mid: 10, options: vec![], payload: pattern(target - fixed, 6) });
            if let Some(len) = steer_value_len(tkl, 13, 0, target) {
                msgs.push(RefMsg { version: 1, mtype: 1, token: pattern(tkl, 7), code: 0x45, mid: 10, options: vec![(13, pattern(len, 6))], payload: vec![] });
            }
        }
    }
    let n = msgs.len() as u64;
    ctx.family(rep, "miri-boundary-slice", "boundary slice: every extension threshold of delta and length, token 0/8, payload 0/1/17, 0.00 with payload, totals at MAX_SIZE-2..+2 via payload and via option value", n, true, |i, rep| {
        limit_oracle("miri-boundary-slice", i, n, &msgs[i as usize], ctx, rep);
    });
}

pub fn run(ctx: &Ctx, rep: &mut Report) {
    let max = Packet::MAX_SIZE;
    if ctx.config == "miri" {
        miri_slice(ctx, rep);
        rep.assume("this configuration ran the boundary slice under Miri (interpreter): any read of uninitialised memory or out-of-bounds access in the serialiser aborts the run and is reported by the runner");
        return;
    }
    // F1: payload sweep
    {
        let top: u64 = if max > 2000 { 1401 } else { 1401 };
        let radices = [top, 2, 3, 2];
        let n = product(&radices);
        let optlens = [usize::MAX, 13, 269];
        ctx.family(
            rep,
            "F1-payload-sweep",
            "payload length 0..=1400 (every value) x token {0,8} x options {none, one of 13 bytes, one of 269 bytes} x code {0.01, 0.00}; each against limits {L-1,L,L+1,0,3,4,MAX-1,MAX,MAX+1,usize::MAX}, to_bytes and to_bytes_unlimited",
            n,
            true,
            |i, rep| {
                let d = decode(i, &radices);
                let ol = optlens[d[2] as usize];
                let m = RefMsg {
                    version: 1,
                    mtype: 0,
                    token: if d[1] == 1 { pattern(8, 3) } else { vec![] },
                    code: if d[3] == 1 { 0x00 } else { 0x01 },
                    mid: 9,
                    options: if ol == usize::MAX { vec![] } else { vec![(11, pattern(ol, 1))] },
                    payload: pattern(d[0] as usize, 5),
                };
                limit_oracle("F1-payload-sweep", i, n, &m, ctx, rep);
            },
        );
    }
    // F2: messages steered to MAX_SIZE-2..=MAX_SIZE+2
    {
        // via payload
        let radices = [5u64, 3, 3, 2];
        let n = product(&radices);
        let optlens = [usize::MAX, 12, 300];
        ctx.family(
            rep,
            "F2-steered-via-payload",
            "total wire length steered to MAX_SIZE-2..=MAX_SIZE+2 through the payload length; token {0,1,8} x options {none,12,300 bytes} x code {0.01,2.05}",
            n,
            true,
            |i, rep| {
                let d = decode(i, &radices);
                let target = max - 2 + d[0] as usize;
                let tkl = [0usize, 1, 8][d[1] as usize];
                let ol = optlens[d[2] as usize];
                let opts: Vec<(u32, Vec<u8>)> = if ol == usize::MAX { vec![] } else { vec![(15, pattern(ol, 2))] };
                let fixed = 4 + tkl + opts.iter().map(|o| option_size(o.0 as usize, o.1.len())).sum::<usize>() + 1;
                let m = RefMsg {
                    version: 1,
                    mtype: 1,
                    token: pattern(tkl, 7),
                    code: if d[3] == 1 { 0x45 } else { 0x01 },
                    mid: 10,
                    options: opts,
                    payload: pattern(target - fixed, 6),
                };
                debug_assert_eq!(codec::enc(&m).unwrap().len(), target);
                limit_oracle("F2-steered-via-payload", i, n, &m, ctx, rep);
            },
        );
        // via option value
        let radices = [5u64, 3, 3, 3];
        let n = product(&radices);
        let numbers = [1usize, 13, 300];
        ctx.family(
            rep,
            "F2-steered-via-option",
            "total wire length steered to MAX_SIZE-2..=MAX_SIZE+2 through one option's value length (searched across the 13/269 header-size steps); token {0,1,8} x option number {1,13,300} x payload {none,1,100 bytes}",
            n,
            true,
            |i, rep| {
                let d = decode(i, &radices);
                let target = max - 2 + d[0] as usize;
                let tkl = [0usize, 1, 8][d[1] as usize];
                let number = numbers[d[2] as usize];
                let pl = [0usize, 1, 100][d[3] as usize];
                match steer_value_len(tkl, number, pl, target) {
                    Some(len) if len <= codec::MAX_EXT => {
                        let m = RefMsg {
                            version: 1,
                            mtype: 0,
                            token: pattern(tkl, 8),
                            code: 0x02,
                            mid: 11,
                            options: vec![(number as u32, pattern(len, 4))],
                            payload: pattern(pl, 1),
                        };
                        limit_oracle("F2-steered-via-option", i, n, &m, ctx, rep);
                    }
                    _ => rep.count("unreachable-total-skipped"),
                }
            },
        );
    }
    // F7: every code byte (named, reserved and unassigned classes alike), every message type, small and limit-sized messages
    {
        let radices = [256u64, 4, 2, 4];
        let n = product(&radices);
        ctx.family(
            rep,
            "F7-every-code-byte",
            "every code byte 0..=255 x message type x token {0,8} x payload {none, 1 byte, 40 bytes, steered to a total of MAX_SIZE}: the limit rule does not depend on what the code means (0.00 alone carries no payload)",
            n,
            true,
            |i, rep| {
                let d = decode(i, &radices);
                let code = d[0] as u8;
                let tkl = [0usize, 8][d[2] as usize];
                let opts: Vec<(u32, Vec<u8>)> = vec![(11, pattern(5, 2)), (60, vec![1, 2])];
                let bare = RefMsg { version: 1, mtype: 0, token: pattern(tkl, 7), code: 1, mid: 0, options: opts.clone(), payload: vec![] };
                let fixed = codec::enc(&bare).unwrap().len() + 1; // + payload marker
                let pl = match d[3] {
                    0 => 0,
                    1 => 1,
                    2 => 40,
                    _ => max - fixed,
                };
                let m = RefMsg { version: 1, mtype: d[1] as u8, token: pattern(tkl, 7), code, mid: 0x0102, options: opts, payload: pattern(pl, 6) };
                limit_oracle("F7-every-code-byte", i, n, &m, ctx, rep);
            },
        );
    }
    // F3: option values at and beyond the 16-bit extended length
    {
        let lens = [65803usize, 65804, 65805, 65806, 70_000, 131_341];
        let n = lens.len() as u64 * 2;
        ctx.family(
            rep,
            "F3-oversize-option-values",
            "one option value of 65803, 65804 (last encodable), 65805, 65806, 70000, 131341 bytes, alone and after a small option; unlimited and 200000-limit calls",
            n,
            true,
            |i, rep| {
                let len = lens[(i / 2) as usize];
                let mut options = vec![];
                if i % 2 == 1 {
                    options.push((3u32, b"h".to_vec()));
                }
                options.push((11u32, pattern(len, 9)));
                let m = RefMsg { version: 1, mtype: 0, token: vec![], code: 1, mid: 1, options, payload: vec![1, 2] };
                oversize_oracle("F3-oversize-option-values", i, &m, rep);
            },
        );
    }
    // F4: option pairs over boundary (delta, length) x limits
    {
        let deltas: [usize; 8] = [0, 1, 12, 13, 14, 268, 269, 270];
        let lens: [usize; 7] = [0, 1, 12, 13, 268, 269, 270];
        let radices = [8u64, 7, 8, 7, 2, 3];
        let n = product(&radices);
        ctx.family(
            rep,
            "F4-option-pairs",
            "two options over delta {0,1,12,13,14,268,269,270} x length {0,1,12,13,268,269,270} (complete pairs) x payload {none, 3 bytes} x {no cleared option, an added-then-cleared option below / between}: the limit must count extension bytes and the marker",
            n,
            true,
            |i, rep| {
                let d = decode(i, &radices);
                let n1 = deltas[d[0] as usize];
                let n2 = n1 + deltas[d[2] as usize];
                let m = RefMsg {
                    version: 1,
                    mtype: 0,
                    token: vec![0xAB],
                    code: 0x04,
                    mid: 12,
                    options: vec![
                        (n1 as u32, pattern(lens[d[1] as usize], 1)),
                        (n2 as u32, pattern(lens[d[3] as usize], 2)),
                    ],
                    payload: if d[4] == 1 { vec![1, 2, 3] } else { vec![] },
                };
                // an added-then-cleared option below / between / above the two (a number neither of them uses)
                let unused = |c: usize| if c != n1 && c != n2 { Some(c as u16) } else { None };
                let cleared = match d[5] {
                    0 => None,
                    1 => unused(0).or_else(|| unused(n2 + 7)),
                    _ => unused(n1 + 1),
                };
                limit_oracle_with("F4-option-pairs", i, n, &m, cleared, ctx, rep);
            },
        );
    }
    // F6: every option value length 0..=1400 (and every total around MAX_SIZE it produces), two numbers
    {
        let radices = [1401u64, 2, 2];
        let n = product(&radices);
        ctx.family(
            rep,
            "F6-option-length-sweep",
            "one option whose value has every length 0..=1400 x option number {11, 300} x payload {none, 1 byte}: limits L-1, L, L+1, MAX-1, MAX, MAX+1 ...",
            n,
            true,
            |i, rep| {
                let d = decode(i, &radices);
                let m = RefMsg {
                    version: 1,
                    mtype: 0,
                    token: vec![7],
                    code: 0x03,
                    mid: 14,
                    options: vec![(if d[1] == 1 { 300 } else { 11 }, pattern(d[0] as usize, 3))],
                    payload: if d[2] == 1 { vec![0x55] } else { vec![] },
                };
                limit_oracle("F6-option-length-sweep", i, n, &m, ctx, rep);
            },
        );
    }
    // F5: many option instances (the per-option header bytes dominate): k values x length x number layout
    {
        let lens = [0usize, 3, 12, 13, 100, 268, 269, 300];
        let radices = [10u64, lens.len() as u64, 5, 2];
        let n = product(&radices);
        ctx.family(
            rep,
            "F5-many-option-instances",
            "1..=10 option instances x value length {0,3,12,13,100,268,269,300} x number layout {all the same number, consecutive numbers, every 13th, every 269th, two numbers alternating} x payload {none, 2 bytes}: buffers sized by option *instances* and their extension bytes",
            n,
            true,
            |i, rep| {
                let d = decode(i, &radices);
                let k = d[0] as usize + 1;
                let len = lens[d[1] as usize];
                let mut opts: Vec<(u32, Vec<u8>)> = (0..k)
                    .map(|j| {
                        let num = match d[2] {
                            0 => 11,
                            1 => 1 + j as u32,
                            2 => 13 * (j as u32 + 1),
                            3 => 269 * (j as u32 + 1),
                            _ => if j % 2 == 0 { 8 } else { 20 },
                        };
                        (num, pattern(len, j as u8))
                    })
                    .collect();
                opts.sort_by_key(|o| o.0);
                let m = RefMsg { version: 1, mtype: 0, token: vec![1, 2], code: 0x02, mid: 13, options: opts, payload: if d[3] == 1 { vec![9, 9] } else { vec![] } };
                limit_oracle("F5-many-option-instances", i, n, &m, ctx, rep);
            },
        );
    }
    rep.note("max_size", max);
    rep.assume("refmodel::codec::enc gives the exact wire length L; 'payload sent' = code != 0.00 and payload non-empty (as the property states)");
    if ctx.config.starts_with("asan") {
        rep.assume("memory-safety clause: this run executed under AddressSanitizer; an ASan report aborts the process and the runner reports it as a violation");
    }
}
