//! C13 — Block option values encode and decode per RFC 7959 section 2.2.

use coap_lite::block_handler::BlockValue;
use mccore::{decode, guard, hex, product, viol, Ctx, Json, Report};
use refmodel::block as rb;
use std::convert::TryFrom;

pub fn run(ctx: &Ctx, rep: &mut Report) {
    // ---- encode/decode: the whole space the type can hold
    {
        let radices = [65536u64, 2, 8];
        let n = product(&radices);
        ctx.family(rep, "triples", "every (num 0..=65535, more, szx 0..=7): encoding == minimal uint(NUM<<4|M<<3|SZX), decode returns the triple, size() == 2^(szx+4)", n, true, |i, rep| {
            let d = decode(i, &radices);
            let (num, more, szx) = (d[0] as u16, d[1] == 1, d[2] as u8);
            let case = || Json::obj().set("num", num).set("more", more).set("szx", szx);
            if ctx.want_sample(i, n) {
                rep.sample(Json::obj().set("family", "triples").set("index", i).set("case", case()).set("rfc_encoding", hex(&rb::enc(num as u32, more, szx))));
            }
            let r = guard(|| {
                let v = BlockValue { num, more, size_exponent: szx };
                let size = v.size();
                let bytes: Vec<u8> = v.into();
                let back = BlockValue::try_from(bytes.clone()).ok();
                (size, bytes, back)
            });
            match r {
                Err(pn) => rep.violation(viol("triples", i, format!("C13/panic@{}", pn.site()), pn.message, case())),
                Ok((size, bytes, back)) => {
                    let expect = rb::enc(num as u32, more, szx);
                    if bytes != expect {
                        rep.violation(viol(
                            "triples",
                            i,
                            "C13/encoding-mismatch",
                            format!("({}, {}, {}) encodes to {} expected {}", num, more, szx, hex(&bytes), hex(&expect)),
                            case(),
                        ));
                    } else if back != Some(BlockValue { num, more, size_exponent: szx }) {
                        rep.violation(viol(
                            "triples",
                            i,
                            "C13/decode-of-own-encoding",
                            format!("({}, {}, {}) -> {} -> {:?}", num, more, szx, hex(&bytes), back),
                            case(),
                        ));
                    } else if size != rb::size(szx) {
                        rep.violation(viol("triples", i, "C13/size", format!("szx {} size() = {}", szx, size), case()));
                    } else {
                        rep.count("triple-roundtrip-ok");
                        rep.bucket(&(bytes.len(), more, szx, num >= 4096));
                    }
                }
            }
        });
    }
    // ---- decode: every byte string of length <= 3, a few longer
    {
        // thorough (one configuration): every string of four bytes too - all of them must be refused
        let maxlen = if ctx.thorough() && ctx.config == "oc" { 4 } else { 3 };
        let n = mccore::strings_upto_count(256, maxlen) + 6;
        let longer: [&[u8]; 6] = [&[0, 0, 0, 0], &[1, 0, 0, 0], &[0, 0, 0, 1, 0], &[0xFF; 4], &[0xFF; 8], &[0, 0, 0, 0, 0, 0, 0, 0, 1]];
        let base = mccore::strings_upto_count(256, maxlen);
        ctx.family(rep, "decode-strings", &format!("every byte string of length 0..={} (and six longer ones): Ok with the RFC triple, or Err; never a silently different value", maxlen), n, true, |i, rep| {
            let s: Vec<u8> = if i < base { mccore::string_at(i, 256, maxlen).iter().map(|x| *x as u8).collect() } else { longer[(i - base) as usize].to_vec() };
            let case = || Json::obj().set("bytes", hex(&s));
            let r = guard(|| BlockValue::try_from(s.clone()).ok().map(|v| (v.num, v.more, v.size_exponent)));
            let rfc = rb::dec(&s); // None for > 3 bytes
            let minimal = rfc.map(|t| rb::enc(t.0, t.1, t.2) == s).unwrap_or(false);
            match r {
                Err(pn) => rep.violation(viol("decode-strings", i, format!("C13/panic@{}", pn.site()), pn.message, case())),
                Ok(Some((num, more, szx))) => {
                    // accepted: must denote the same integer as the input (leading zeros tolerated)
                    let int_in = refmodel::uint::dec(&s, 16);
                    let int_out = rb::value(num as u32, more, szx) as u128;
                    if int_in != Some(int_out) {
                        rep.violation(viol(
                            "decode-strings",
                            i,
                            "C13/decode-silently-wraps",
                            format!("{} decodes to ({}, {}, {}) which denotes {:#x}, input denotes {:?}", hex(&s), num, more, szx, int_out, int_in),
                            case(),
                        ));
                    } else {
                        rep.count("decoded");
                        rep.bucket(&("dec", s.len(), more, szx, minimal));
                    }
                }
                Ok(None) => {
                    // minimal encodings of representable triples must be accepted (num <= 65535 always holds for <= 3 bytes: 20 bits)
                    if minimal && rfc.map(|t| t.0 <= 65535).unwrap_or(false) {
                        rep.violation(viol(
                            "decode-strings",
                            i,
                            "C13/rejects-valid-encoding",
                            format!("{} is the minimal encoding of {:?} but is rejected", hex(&s), rfc.unwrap()),
                            case(),
                        ));
                    } else {
                        rep.count("rejected");
                        rep.bucket(&("rej", s.len(), minimal));
                    }
                }
            }
        });
    }
    // ---- construction from a byte size
    {
        let mut nums: Vec<usize> = (0..=4097).collect();
        nums.extend([65534, 65535, 65536, 65537, 1 << 20, usize::MAX - 1, usize::MAX]);
        // values that alias to a small number when truncated to 8/16/20/24/32/48 bits
        for k in 8..usize::BITS {
            let p = 1usize << k;
            nums.extend([p - 1, p, p + 1, p + 5, p.wrapping_add(4095), p.wrapping_add(65535)]);
        }
        nums.sort();
        nums.dedup();
        let mut sizes: Vec<usize> = (0..=8200).collect();
        for k in 14..usize::BITS {
            let p = 1usize << k;
            sizes.extend([p - 1, p, p + 1, p + 16, p + 64, p + 1024]);
        }
        sizes.push(usize::MAX);
        // full product for num in {0, 1, 4095, 4096, 65535, 65536, usize::MAX}; for the others a size subset
        let key_nums: Vec<usize> = vec![0, 1, 4095, 4096, 4097, 65535, 65536, usize::MAX];
        let size_subset: Vec<usize> = vec![0, 1, 15, 16, 17, 31, 32, 33, 1023, 1024, 1025, 2047, 2048, 4095, 4096, 8192, usize::MAX];
        let n1 = (key_nums.len() * sizes.len()) as u64;
        let n2 = (nums.len() * size_subset.len()) as u64;
        let n = n1 + n2 + if ctx.thorough() { (nums.len() * 8201) as u64 } else { 0 };
        ctx.family(
            rep,
            "construction",
            "BlockValue::new(num, more, size): num in {0,1,4095,4096,4097,65535,65536,usize::MAX} x every size 0..=8200 and 2^k-1,2^k,2^k+1 up to usize::MAX; every num 0..=4097, 2^k + {-1,0,1,5,4095,65535} for k = 8..63 and the large ones x 17 boundary sizes; sizes also 2^k + {16,64,1024} (thorough: x every size 0..=8200)",
            n,
            true,
            |i, rep| {
                let (num, size) = if i < n1 {
                    (key_nums[(i / sizes.len() as u64) as usize], sizes[(i % sizes.len() as u64) as usize])
                } else if i < n1 + n2 {
                    let j = i - n1;
                    (nums[(j / size_subset.len() as u64) as usize], size_subset[(j % size_subset.len() as u64) as usize])
                } else {
                    let j = i - n1 - n2;
                    (nums[(j / 8201) as usize], (j % 8201) as usize)
                };
                let more = (num ^ size) & 1 == 1;
                let case = || Json::obj().set("num", num as u64).set("more", more).set("size", size as u64);
                if ctx.want_sample(i, n) {
                    rep.sample(Json::obj().set("family", "construction").set("index", i).set("case", case()));
                }
                let r = guard(|| BlockValue::new(num, more, size).ok().map(|v| (v.num, v.more, v.size_exponent, v.size())));
                let expect = match (rb::szx_for_size(size as u128), num <= 65535) {
                    (Some(szx), true) => Some((num as u16, more, szx, rb::size(szx))),
                    _ => None,
                };
                match r {
                    Err(pn) => rep.violation(viol("construction", i, format!("C13/panic@{}", pn.site()), pn.message, case())),
                    Ok(got) => {
                        if got != expect {
                            let sig = match (got, expect) {
                                (Some(_), None) => "C13/construction-accepts-unrepresentable",
                                (None, Some(_)) => "C13/construction-rejects-valid",
                                _ => "C13/construction-wrong-value",
                            };
                            rep.violation(viol("construction", i, sig, format!("new({}, {}, {}) = {:?}, expected {:?}", num, more, size, got, expect), case()));
                        } else {
                            rep.count(if got.is_some() { "constructed" } else { "refused" });
                            rep.bucket(&("new", got.map(|g| g.2), num > 65535, num >= 4096, size == 0, size >= 4096));
                        }
                    }
                }
            },
        );
    }
    rep.assume("refmodel::block (RFC 7959 section 2.2) is the trusted reference; a non-minimal (leading-zero) encoding may be accepted or rejected as long as an accepted value denotes the same integer");
}
