//! C19 — convenience accessors and coap-message views agree with raw message state.

use crate::common::{msg_json, pattern, to_ref};
use coap_lite::{
    CoapOption, CoapRequest, CoapResponse, ContentFormat, MessageClass, ObserveOption, Packet, RequestType, ResponseType,
};
use mccore::{decode, guard, hex, product, viol, Ctx, Json, Report};
use refmodel::codec::RefMsg;
use refmodel::registries as reg;
use std::convert::TryFrom;

type Req = CoapRequest<u8>;

fn response_shell() -> CoapResponse {
    let mut p = Packet::new();
    p.header.message_id = 7;
    CoapResponse::new(&p).unwrap()
}

fn named_statuses() -> Vec<(ResponseType, u8, String)> {
    reg::RESPONSES
        .iter()
        .map(|r| {
            let b = reg::response_byte(r.0, r.1);
            match MessageClass::from(b) {
                MessageClass::Response(rt) => (rt, b, r.3.to_string()),
                other => panic!("registry response code {:#x} is {:?} in the crate", b, other),
            }
        })
        .collect()
}

fn named_methods() -> Vec<(RequestType, u8, String)> {
    reg::METHODS
        .iter()
        .map(|m| match MessageClass::from(m.0) {
            MessageClass::Request(rt) => (rt, m.0, m.2.to_string()),
            other => panic!("registry method {:#x} is {:?} in the crate", m.0, other),
        })
        .collect()
}

fn named_formats() -> Vec<(ContentFormat, u16)> {
    reg::CONTENT_FORMATS.iter().filter(|e| !e.2.is_empty()).filter_map(|e| ContentFormat::try_from(e.0 as usize).ok().map(|c| (c, e.0))).collect()
}

fn wire_code(p: &Packet) -> Option<u8> {
    p.to_bytes().ok().map(|b| b[1])
}

// ---------------------------------------------------------------------------
// 1-4: named values
// ---------------------------------------------------------------------------
fn named_values(ctx: &Ctx, rep: &mut Report) {
    // methods: named set -> get; all code bytes -> get
    let methods = named_methods();
    let statuses = named_statuses();
    let n = 256 * 2 + methods.len() as u64 + statuses.len() as u64;
    ctx.family(
        rep,
        "codes-through-accessors",
        "every named method through set_method/get_method and every named status through set_status/get_status (getter, raw header.code, encoded byte); all 256 code bytes through both getters: named iff registered in that class, UnKnown otherwise",
        n,
        true,
        |i, rep| {
            let nm = methods.len() as u64;
            let ns = statuses.len() as u64;
            if i < nm {
                let (m, b, name) = &methods[i as usize];
                let r = guard(|| {
                    let mut rq = Req::new();
                    rq.message.header.code = MessageClass::from(0x45);
                    rq.set_method(*m);
                    (format!("{:?}", rq.get_method()), u8::from(rq.message.header.code), wire_code(&rq.message))
                });
                match r {
                    Ok((g, raw, wire)) if &g == name && raw == *b && wire == Some(*b) => {
                        rep.count("method-set-get-ok");
                        rep.bucket(&("m", *b));
                    }
                    other => rep.violation(viol("codes-through-accessors", i, "C19/method-accessor", format!("set_method({}) -> {:?}", name, other), Json::obj().set("method", name.as_str()))),
                }
            } else if i < nm + ns {
                let (s, b, name) = &statuses[(i - nm) as usize];
                let r = guard(|| {
                    let mut rs = response_shell();
                    rs.set_status(*s);
                    (format!("{:?}", rs.get_status()), u8::from(rs.message.header.code), wire_code(&rs.message))
                });
                match r {
                    Ok((g, raw, wire)) if &g == name && raw == *b && wire == Some(*b) => {
                        rep.count("status-set-get-ok");
                        rep.bucket(&("s", *b));
                    }
                    Ok((g, raw, wire)) => rep.violation(viol(
                        "codes-through-accessors",
                        i,
                        format!("C19/status-accessor/{}", name),
                        format!("set_status({}) then get_status() = {}, header.code byte {:#04x}, encoded byte {:?}", name, g, raw, wire),
                        Json::obj().set("status", name.as_str()).set("code", reg::dotted(*b)),
                    )),
                    Err(pn) => rep.violation(viol("codes-through-accessors", i, format!("C19/panic@{}", pn.site()), pn.message, Json::obj().set("status", name.as_str()))),
                }
            } else {
                let j = i - nm - ns;
                let b = (j % 256) as u8;
                let status_side = j >= 256;
                let r = guard(|| {
                    if status_side {
                        let mut rs = response_shell();
                        rs.message.header.code = MessageClass::from(b);
                        format!("{:?}", rs.get_status())
                    } else {
                        let mut rq = Req::new();
                        rq.message.header.code = MessageClass::from(b);
                        format!("{:?}", rq.get_method())
                    }
                });
                let expect = if status_side {
                    reg::RESPONSES.iter().find(|r| reg::response_byte(r.0, r.1) == b).map(|r| r.3.to_string())
                } else {
                    reg::METHODS.iter().find(|m| m.0 == b).map(|m| m.2.to_string())
                }
                .unwrap_or_else(|| "UnKnown".to_string());
                match r {
                    Ok(g) if g == expect => {
                        rep.count(if expect == "UnKnown" { "unnamed-code-unknown" } else { "named-code-read-ok" });
                        rep.bucket(&("g", status_side, b));
                    }
                    Ok(g) => rep.violation(viol(
                        "codes-through-accessors",
                        i,
                        if status_side { format!("C19/status-getter/{}", expect) } else { format!("C19/method-getter/{}", expect) },
                        format!("code {} read through {} gives {}, expected {}", reg::dotted(b), if status_side { "get_status" } else { "get_method" }, g, expect),
                        Json::obj().set("code", reg::dotted(b)),
                    )),
                    Err(pn) => rep.violation(viol("codes-through-accessors", i, format!("C19/panic@{}", pn.site()), pn.message, Json::obj().set("code", reg::dotted(b)))),
                }
            }
            if ctx.want_sample(i, n) {
                rep.sample(Json::obj().set("family", "codes-through-accessors").set("index", i));
            }
        },
    );
    // content formats
    let formats = named_formats();
    let n = formats.len() as u64 + 65536 + 6;
    ctx.family(
        rep,
        "content-format-accessors",
        "every named content format through set_content_format/get_content_format (getter, raw option 12 == minimal big-endian id, encoded bytes); every 16-bit id stored raw: getter names it iff the registry does; raw values longer than 2 bytes read as None",
        n,
        true,
        |i, rep| {
            let nf = formats.len() as u64;
            if i < nf {
                let (cf, id) = formats[i as usize];
                let r = guard(|| {
                    let mut p = Packet::new();
                    p.set_content_format(cf);
                    let raw: Vec<Vec<u8>> = p.get_option(CoapOption::ContentFormat).map(|l| l.iter().cloned().collect()).unwrap_or_default();
                    let back = Packet::from_bytes(&p.to_bytes().unwrap()).unwrap();
                    (p.get_content_format(), raw, to_ref(&back).options)
                });
                let enc = refmodel::uint::enc(id as u128);
                match r {
                    Ok((g, raw, wire)) if g == Some(cf) && raw == vec![enc.clone()] && wire == vec![(12u32, enc.clone())] => {
                        rep.count("content-format-set-get-ok");
                        rep.bucket(&("cf", id));
                    }
                    other => rep.violation(viol(
                        "content-format-accessors",
                        i,
                        "C19/content-format-accessor",
                        format!("set_content_format({:?}) -> {:?}", cf, other),
                        Json::obj().set("id", id),
                    )),
                }
            } else if i < nf + 65536 {
                let id = (i - nf) as u16;
                let r = guard(|| {
                    let mut p = Packet::new();
                    p.add_option(CoapOption::ContentFormat, refmodel::uint::enc(id as u128));
                    let got = p.get_content_format();
                    // whatever format the getter names for this id: setting it must store exactly this id
                    if let Some(cf) = got {
                        let mut q = Packet::new();
                        q.set_content_format(cf);
                        if q.get_first_option(CoapOption::ContentFormat) != Some(&refmodel::uint::enc(id as u128)) || q.get_content_format() != Some(cf) {
                            return Some(format!("{:?}-whose-setter-stores-{:?}", cf, q.get_first_option(CoapOption::ContentFormat).map(|v| hex(v))));
                        }
                    }
                    got.map(|c| format!("{:?}", c))
                });
                let expect = reg::CONTENT_FORMATS.iter().find(|e| e.0 == id && !e.2.is_empty()).map(|e| e.2.to_string());
                match r {
                    Ok(g) if g == expect => rep.count(if expect.is_some() { "named-format-read-ok" } else { "unnamed-format-none" }),
                    Ok(Some(g)) if expect.is_none() && !reg::CONTENT_FORMATS.iter().any(|e| e.2 == g) && reg::CONTENT_FORMATS.iter().any(|e| e.0 == id) => {
                        rep.count("additional-named-format")
                    }
                    other => rep.violation(viol(
                        "content-format-accessors",
                        i,
                        "C19/content-format-getter",
                        format!("raw content-format {} read as {:?}, expected {:?}", id, other, expect),
                        Json::obj().set("id", id),
                    )),
                }
            } else {
                let raws: [&[u8]; 6] = [&[0, 0, 0], &[0, 0, 50], &[1, 0, 0], &[0, 0, 0, 0], &[0xFF, 0xFF, 0xFF], &[0, 0, 0, 0, 0, 0, 0, 0, 50]];
                let raw = raws[(i - nf - 65536) as usize];
                let r = guard(|| {
                    let mut p = Packet::new();
                    p.add_option(CoapOption::ContentFormat, raw.to_vec());
                    p.get_content_format()
                });
                match r {
                    Ok(None) => rep.count("over-long-format-none"),
                    other => rep.violation(viol("content-format-accessors", i, "C19/content-format-getter", format!("raw {} read as {:?}", hex(raw), other), Json::obj().set("raw", hex(raw)))),
                }
            }
        },
    );
    // observe flags
    let n = 2 + mccore::strings_upto_count(4, 6) + 1;
    let syms = [0u8, 1, 2, 0xFF];
    ctx.family(
        rep,
        "observe-flag-accessors",
        "both observe actions through set_observe_flag/get_observe_flag; every raw Observe value of length 0..=6 over {00,01,02,FF}: Register / Deregister / Err(InvalidObserve) by numeric value; no option -> None",
        n,
        true,
        |i, rep| {
            if i < 2 {
                let flag = if i == 0 { ObserveOption::Register } else { ObserveOption::Deregister };
                let r = guard(|| {
                    let mut rq = Req::new();
                    rq.message.add_option(CoapOption::Observe, vec![9, 9]);
                    rq.set_observe_flag(flag);
                    let raw: Vec<Vec<u8>> = rq.message.get_option(CoapOption::Observe).map(|l| l.iter().cloned().collect()).unwrap_or_default();
                    (rq.get_observe_flag(), raw)
                });
                match r {
                    Ok((Some(Ok(f)), raw)) if f == flag && raw == vec![refmodel::uint::enc(i as u128)] => rep.count("observe-flag-set-get-ok"),
                    other => rep.violation(viol("observe-flag-accessors", i, "C19/observe-flag-accessor", format!("set_observe_flag({:?}) -> {:?}", flag, other), Json::Null)),
                }
            } else if i == n - 1 {
                let rq = Req::new();
                match guard(|| rq.get_observe_flag()) {
                    Ok(None) => rep.count("no-observe-option-none"),
                    other => rep.violation(viol("observe-flag-accessors", i, "C19/observe-flag-getter", format!("no option -> {:?}", other), Json::Null)),
                }
            } else {
                let raw: Vec<u8> = mccore::string_at(i - 2, 4, 6).iter().map(|x| syms[*x as usize]).collect();
                let r = guard(|| {
                    let mut rq = Req::new();
                    rq.message.add_option(CoapOption::Observe, raw.clone());
                    rq.get_observe_flag()
                });
                let numeric = refmodel::uint::dec(&raw, 16).unwrap();
                let named = reg::OBSERVE_ACTIONS.iter().find(|a| a.0 as u128 == numeric).map(|a| a.1);
                let ok = match &r {
                    Ok(Some(Ok(f))) => Some(format!("{:?}", f).as_str()) == named,
                    // an error is the documented result for unnamed values, and tolerated for encodings longer than a u32
                    Ok(Some(Err(_))) => named.is_none() || raw.len() > 4,
                    _ => false,
                };
                if ok {
                    rep.count(if matches!(r, Ok(Some(Ok(_)))) { "observe-named" } else { "observe-invalid" });
                    rep.bucket(&("obs", raw.len(), numeric.min(3) as u8, matches!(r, Ok(Some(Ok(_))))));
                } else {
                    rep.violation(viol(
                        "observe-flag-accessors",
                        i,
                        "C19/observe-flag-getter",
                        format!("raw Observe value {} (numeric {}) read as {:?}", hex(&raw), numeric, r),
                        Json::obj().set("raw", hex(&raw)),
                    ));
                }
            }
        },
    );
}

// ---------------------------------------------------------------------------
// 5: paths
// ---------------------------------------------------------------------------
fn paths(ctx: &Ctx, rep: &mut Report) {
    let syms = ["/", "a", ".", "é"];
    let maxlen = if ctx.thorough() { 9 } else { 8 };
    let strings = mccore::strings_upto_count(4, maxlen);
    let radices = [strings, 3];
    let n = product(&radices);
    ctx.family(
        rep,
        "paths",
        &format!("every path string of length 0..={} over {{/ a . é}} x prior state {{fresh, an older path, an older path + other options}}: get_path, get_path_as_vec, raw Uri-Path list and encoded options agree with each other and with the input minus one leading '/'", maxlen),
        n,
        true,
        |i, rep| {
            let d = decode(i, &radices);
            let s: String = mccore::string_at(d[0], 4, maxlen).iter().map(|x| syms[*x as usize]).collect();
            let prior = d[1];
            let r = guard(|| {
                let mut rq = Req::new();
                if prior >= 1 {
                    rq.set_path("old/path/segments");
                }
                if prior == 2 {
                    rq.message.add_option(CoapOption::UriHost, b"h".to_vec());
                    rq.message.add_option(CoapOption::UriQuery, b"q=1".to_vec());
                }
                rq.set_path(&s);
                let raw: Vec<Vec<u8>> = rq.message.get_option(CoapOption::UriPath).map(|l| l.iter().cloned().collect()).unwrap_or_default();
                let wire = Packet::from_bytes(&rq.message.to_bytes().unwrap()).unwrap();
                let wire_path: Vec<Vec<u8>> = to_ref(&wire).options.into_iter().filter(|o| o.0 == 11).map(|o| o.1).collect();
                let others: Vec<u32> = to_ref(&wire).options.iter().filter(|o| o.0 != 11).map(|o| o.0).collect();
                (rq.get_path(), rq.get_path_as_vec().ok(), raw, wire_path, others)
            });
            let stripped = s.strip_prefix('/').unwrap_or(&s).to_string();
            // segments: the empty input has none; otherwise split on '/'
            let segs: Vec<String> = if s.is_empty() { vec![] } else { stripped.split('/').map(|x| x.to_string()).collect() };
            let case = || Json::obj().set("path", s.as_str()).set("prior_state", prior);
            match r {
                Err(pn) => rep.violation(viol("paths", i, format!("C19/panic@{}", pn.site()), pn.message, case())),
                Ok((gp, gv, raw, wire_path, others)) => {
                    let segs_b: Vec<Vec<u8>> = segs.iter().map(|x| x.as_bytes().to_vec()).collect();
                    let exp_others: Vec<u32> = if prior == 2 { vec![3, 15] } else { vec![] };
                    if gp != stripped || gv.as_ref() != Some(&segs) || raw != segs_b || wire_path != segs_b || others != exp_others {
                        rep.violation(viol(
                            "paths",
                            i,
                            "C19/path-views-disagree",
                            format!("set_path({:?}): get_path {:?}, get_path_as_vec {:?}, raw {:?}, encoded {:?}, other options {:?}; expected path {:?} segments {:?}", s, gp, gv, raw, wire_path, others, stripped, segs),
                            case(),
                        ));
                    } else {
                        rep.count("path-views-agree");
                        rep.bucket(&("p", segs.len().min(5), s.starts_with('/'), s.ends_with('/'), s.contains("//"), prior));
                    }
                }
            }
            if ctx.want_sample(i, n) {
                rep.sample(Json::obj().set("family", "paths").set("index", i).set("case", case()));
            }
        },
    );
    // paths with percent signs, digits, spaces and question marks: the setter stores the text as given
    {
        let syms2 = ["%", "2", "F", "f", "a", "/", " ", "?"];
        let maxlen2 = if ctx.thorough() { 6 } else { 5 };
        let n2 = mccore::strings_upto_count(8, maxlen2);
        ctx.family(
            rep,
            "paths-percent-and-friends",
            &format!("every path string of length 0..={} over {{% 2 F f a / space ?}}: all path views agree with the input minus one leading '/' (no decoding of any kind)", maxlen2),
            n2,
            true,
            |i, rep| {
                let s: String = mccore::string_at(i, 8, maxlen2).iter().map(|x| syms2[*x as usize]).collect();
                let r = guard(|| {
                    let mut rq = Req::new();
                    rq.set_path(&s);
                    let raw: Vec<Vec<u8>> = rq.message.get_option(CoapOption::UriPath).map(|l| l.iter().cloned().collect()).unwrap_or_default();
                    (rq.get_path(), rq.get_path_as_vec().ok(), raw)
                });
                let stripped = s.strip_prefix('/').unwrap_or(&s).to_string();
                let segs: Vec<String> = if s.is_empty() { vec![] } else { stripped.split('/').map(|x| x.to_string()).collect() };
                match r {
                    Ok((gp, gv, raw)) if gp == stripped && gv.as_ref() == Some(&segs) && raw == segs.iter().map(|x| x.as_bytes().to_vec()).collect::<Vec<_>>() => {
                        rep.count("path-views-agree");
                        rep.bucket(&("pp", segs.len().min(4), s.contains('%')));
                    }
                    other => rep.violation(viol(
                        "paths-percent-and-friends",
                        i,
                        "C19/path-views-disagree",
                        format!("set_path({:?}) -> {:?}; expected path {:?} segments {:?}", s, other, stripped, segs),
                        Json::obj().set("path", s.as_str()),
                    )),
                }
            },
        );
    }
    // raw non-UTF-8 segments
    let raws: Vec<Vec<Vec<u8>>> = vec![vec![vec![0xFF]], vec![b"a".to_vec(), vec![0xC3]], vec![vec![0xE2, 0x82], b"b".to_vec()], vec![b"ok".to_vec()]];
    let n = raws.len() as u64;
    ctx.family(rep, "paths-non-utf8", "raw Uri-Path values that are not UTF-8: get_path_as_vec reports the documented error, get_path does not crash", n, true, |i, rep| {
        let raw = &raws[i as usize];
        let r = guard(|| {
            let mut rq = Req::new();
            for s in raw {
                rq.message.add_option(CoapOption::UriPath, s.clone());
            }
            (rq.get_path(), rq.get_path_as_vec().is_ok())
        });
        let all_utf8 = raw.iter().all(|s| std::str::from_utf8(s).is_ok());
        match r {
            Ok((_, ok)) if ok == all_utf8 => rep.count("non-utf8-path-handled"),
            other => rep.violation(viol("paths-non-utf8", i, "C19/non-utf8-path", format!("{:?} -> {:?}", raw, other), Json::Null)),
        }
    });
}

// ---------------------------------------------------------------------------
// 6: setter histories
// ---------------------------------------------------------------------------
/// A response object around a given message (no struct literal: the type may grow fields).
fn response_with(message: Packet) -> CoapResponse {
    let mut con = Packet::new();
    con.header.set_type(coap_lite::MessageType::Confirmable);
    let mut r = CoapResponse::new(&con).expect("a response is prepared for a confirmable message");
    r.message = message;
    r
}

#[derive(Clone, Debug, PartialEq)]
enum H {
    SetCf(u16),
    RawCf(Vec<u8>),
    SetObs(bool),
    RawObs(Vec<u8>),
    SetPath(&'static str),
    RawPath(&'static str),
    SetStatus(u8),
    RawCode(u8),
    SetMethod(u8),
    ClearAll,
}

fn hist_actions() -> Vec<H> {
    vec![
        H::SetCf(50),
        H::SetCf(0),
        H::SetCf(11542),
        H::RawCf(vec![40]),
        H::RawCf(vec![0, 50]),
        H::RawCf(vec![1, 2, 3]),
        H::SetObs(true),
        H::SetObs(false),
        H::RawObs(vec![5]),
        H::RawObs(vec![0, 1]),
        H::SetPath("x"),
        H::SetPath("/y/z"),
        H::SetPath(""),
        H::RawPath("w"),
        H::SetStatus(0x84),
        H::SetStatus(0x5F),
        H::RawCode(0x45),
        H::SetMethod(0x03),
        H::SetMethod(0x07),
        H::ClearAll,
    ]
}

fn histories(ctx: &Ctx, rep: &mut Report) {
    let acts = hist_actions();
    let k = acts.len() as u64;
    let maxlen = if ctx.thorough() { 6 } else { 5 };
    let n = mccore::strings_upto_count(k, maxlen);
    ctx.family(
        rep,
        "setter-histories",
        &format!("every sequence of 0..={} operations over 20 setter / raw-add operations (content format, observe flag, path, status, method, clear_all_options); for each kind whose last touching operation was a setter, getter, raw accessor and encoded bytes show that value", maxlen),
        n,
        true,
        |i, rep| {
            let seq: Vec<&H> = mccore::string_at(i, k, maxlen).iter().map(|x| &acts[*x as usize]).collect();
            let case = || Json::obj().set("operations", format!("{:?}", seq));
            let r = guard(|| {
                // one object plays both roles: a CoapRequest whose message is also viewed as a response
                let mut rq = Req::new();
                for h in &seq {
                    match h {
                        H::SetCf(id) => {
                            let _ = rq.message.set_content_format(ContentFormat::try_from(*id as usize).unwrap());
                        }
                        H::RawCf(v) => {
                            let _ = rq.message.add_option(CoapOption::ContentFormat, v.clone());
                        }
                        H::SetObs(reg_) => {
                            let _ = rq.set_observe_flag(if *reg_ { ObserveOption::Register } else { ObserveOption::Deregister });
                        }
                        H::RawObs(v) => {
                            let _ = rq.message.add_option(CoapOption::Observe, v.clone());
                        }
                        H::SetPath(p) => {
                            let _ = rq.set_path(p);
                        }
                        H::RawPath(p) => {
                            let _ = rq.message.add_option(CoapOption::UriPath, p.as_bytes().to_vec());
                        }
                        H::SetStatus(b) => {
                            let mut rs = response_with(rq.message.clone());
                            if let MessageClass::Response(s) = MessageClass::from(*b) {
                                rs.set_status(s);
                            }
                            rq.message = rs.message;
                        }
                        H::RawCode(b) => rq.message.header.code = MessageClass::from(*b),
                        H::SetMethod(b) => {
                            if let MessageClass::Request(m) = MessageClass::from(*b) {
                                rq.set_method(m);
                            }
                        }
                        H::ClearAll => {
                            let _ = rq.message.clear_all_options();
                        }
                    }
                }
                let rs = response_with(rq.message.clone());
                let wire = Packet::from_bytes(&rq.message.to_bytes().unwrap()).unwrap();
                (
                    rq.message.get_content_format().map(|c| usize::from(c) as u16),
                    rq.message.get_option(CoapOption::ContentFormat).map(|l| l.iter().cloned().collect::<Vec<Vec<u8>>>()),
                    rq.get_observe_flag().map(|r| r.ok().map(|f| f == ObserveOption::Register)),
                    rq.message.get_option(CoapOption::Observe).map(|l| l.iter().cloned().collect::<Vec<Vec<u8>>>()),
                    rq.get_path(),
                    rq.get_path_as_vec().ok(),
                    format!("{:?}", rq.get_method()),
                    format!("{:?}", rs.get_status()),
                    u8::from(rq.message.header.code),
                    to_ref(&wire),
                )
            });
            match r {
                Err(pn) => rep.violation(viol("setter-histories", i, format!("C19/panic@{}", pn.site()), pn.message, case())),
                Ok((cf, cf_raw, obs, obs_raw, path, pathv, method, status, code, wire)) => {
                    // last operation touching each kind (ClearAll touches all option kinds as "unset by raw means")
                    let last = |f: &dyn Fn(&H) -> bool| seq.iter().rev().find(|h| f(h)).cloned();
                    let mut bad: Option<(String, String)> = None;
                    if let Some(H::SetCf(id)) = last(&|h| matches!(h, H::SetCf(_) | H::RawCf(_) | H::ClearAll)) {
                        let enc = refmodel::uint::enc(*id as u128);
                        // the setter stores ONE value: the raw list and the encoded message show exactly that one,
                        // whatever was there before (nothing stale in front of it or behind it)
                        let wire_all: Vec<Vec<u8>> = wire.options.iter().filter(|o| o.0 == 12).map(|o| o.1.clone()).collect();
                        if cf != Some(*id) || cf_raw.as_ref() != Some(&vec![enc.clone()]) || wire_all != vec![enc.clone()] {
                            bad = Some((
                                "C19/content-format-setter-not-what-views-show".into(),
                                format!("last set_content_format({}): getter {:?}, raw values {:?}, encoded values {:?}", id, cf, cf_raw.map(|l| l.iter().map(|v| hex(v)).collect::<Vec<_>>()), wire_all.iter().map(|v| hex(v)).collect::<Vec<_>>()),
                            ));
                        }
                    }
                    if let Some(H::SetObs(rg)) = last(&|h| matches!(h, H::SetObs(_) | H::RawObs(_) | H::ClearAll)) {
                        let enc = refmodel::uint::enc(if *rg { 0 } else { 1 });
                        let wire_all: Vec<Vec<u8>> = wire.options.iter().filter(|o| o.0 == 6).map(|o| o.1.clone()).collect();
                        if obs != Some(Some(*rg)) || obs_raw.as_ref() != Some(&vec![enc.clone()]) || wire_all != vec![enc.clone()] {
                            bad = Some(("C19/observe-setter-not-what-views-show".into(), format!("last set_observe_flag(register={}): getter {:?}, raw {:?}", rg, obs, obs_raw)));
                        }
                    }
                    if let Some(H::SetPath(p)) = last(&|h| matches!(h, H::SetPath(_) | H::RawPath(_) | H::ClearAll)) {
                        let stripped = p.strip_prefix('/').unwrap_or(p);
                        let segs: Vec<String> = if p.is_empty() { vec![] } else { stripped.split('/').map(|x| x.to_string()).collect() };
                        let wire_path: Vec<Vec<u8>> = wire.options.iter().filter(|o| o.0 == 11).map(|o| o.1.clone()).collect();
                        if path != stripped || pathv.as_ref() != Some(&segs) || wire_path != segs.iter().map(|x| x.as_bytes().to_vec()).collect::<Vec<_>>() {
                            bad = Some(("C19/path-setter-not-what-views-show".into(), format!("last set_path({:?}): get_path {:?}, vec {:?}, encoded {:?}", p, path, pathv, wire_path)));
                        }
                    }
                    match last(&|h| matches!(h, H::SetStatus(_) | H::RawCode(_) | H::SetMethod(_))) {
                        Some(H::SetStatus(b)) => {
                            let name = reg::RESPONSES.iter().find(|r| reg::response_byte(r.0, r.1) == *b).unwrap().3;
                            if status != name || code != *b || wire.code != *b {
                                bad = Some((format!("C19/status-accessor/{}", name), format!("last set_status({}): get_status {}, code byte {:#04x}, encoded {:#04x}", name, status, code, wire.code)));
                            }
                        }
                        Some(H::SetMethod(b)) => {
                            let name = reg::METHODS.iter().find(|m| m.0 == *b).unwrap().2;
                            if method != name || code != *b || wire.code != *b {
                                bad = Some(("C19/method-accessor".into(), format!("last set_method({}): get_method {}, code byte {:#04x}", name, method, code)));
                            }
                        }
                        _ => {}
                    }
                    match bad {
                        Some((sig, what)) => rep.violation(viol("setter-histories", i, sig, what, case())),
                        None => {
                            rep.count("history-views-agree");
                            rep.bucket(&("h", seq.iter().map(|h| std::mem::discriminant(*h)).collect::<Vec<_>>()));
                        }
                    }
                }
            }
            if ctx.want_sample(i, n) {
                rep.sample(Json::obj().set("family", "setter-histories").set("index", i).set("case", case()));
            }
        },
    );
}

// ---------------------------------------------------------------------------
// 7: coap-message trait views (0.2 and 0.3)
// ---------------------------------------------------------------------------
trait Fin {
    type Out;
    fn fin(self) -> Self::Out;
}
impl Fin for () {
    type Out = ();
    fn fin(self) {}
}
impl<T, E: std::fmt::Debug> Fin for Result<T, E> {
    type Out = T;
    fn fin(self) -> T {
        self.unwrap()
    }
}
impl<'a> Fin for &'a mut [u8] {
    type Out = &'a mut [u8];
    fn fin(self) -> &'a mut [u8] {
        self
    }
}

const TV_OPTS: [(u16, &[u8]); 7] = [(1, b"e1"), (11, b"p1"), (11, b"p2"), (12, &[50]), (60, &[1, 0]), (258, &[0x1A]), (65000, b"")];

/// All ordered selections of <= 4 distinct entries of TV_OPTS: index -> list of entry indices.
fn selection(mut idx: u64) -> Vec<usize> {
    // lengths 0..=4: 1 + 7 + 42 + 210 + 840 = 1100
    for len in 0..=4usize {
        let count: u64 = (0..len).map(|k| (7 - k) as u64).product();
        if idx < count {
            let mut avail: Vec<usize> = (0..7).collect();
            let mut out = Vec::new();
            let mut rem = idx;
            for k in 0..len {
                let below: u64 = ((k + 1)..len).map(|j| (7 - j) as u64).product();
                let pick = (rem / below) as usize;
                rem %= below;
                out.push(avail.remove(pick));
            }
            return out;
        }
        idx -= count;
    }
    panic!("selection index out of range")
}
const SELECTIONS: u64 = 1 + 7 + 42 + 210 + 840;

macro_rules! trait_views {
    ($fname:ident, $cm:ident, $label:expr) => {
        fn $fname(ctx: &Ctx, rep: &mut Report) {
            use $cm::{MessageOption, MinimalWritableMessage, MutableWritableMessage, ReadableMessage};
            // last coordinate: an option that was added and cleared again (its emptied list stays in the
            // map) below / between / above the others: 0 none, 1 number 3, 2 number 13, 3 number 65001
            const CLEARED: [&[u16]; 8] = [&[], &[3], &[13], &[65001], &[3, 4], &[13, 14], &[3, 4, 5], &[3, 13, 14, 65001, 65002]];
            let radices = [SELECTIONS, 2, 4, CLEARED.len() as u64];
            let codes_sub: [u8; 4] = [0x01, 0x45, 0x00, 0xFF];
            let n = product(&radices) + 256;
            let fam = concat!("trait-views-", $label);
            ctx.family(
                rep,
                fam,
                concat!("coap-message ", $label, ": every ordered selection of <= 4 of the options {1, 11, 11', 12, 60, 258, 65000} x payload {none, 3 bytes} x 4 codes x {no cleared option, one added-then-cleared option below / between / above the others, two or three adjacent cleared numbers, five cleared numbers spread over the range}, plus all 256 codes: reader view == raw state (options flattened in ascending number, per-number insertion order); writer calls change exactly the raw state; set_from_message reproduces code/options/payload; payload_mut_with_len / truncate / mutate_options visible through the raw API"),
                n,
                true,
                |i, rep| {
                    let (sel, with_payload, code, cleared) = if i < product(&radices) {
                        let d = decode(i, &radices);
                        (selection(d[0]), d[1] == 1, codes_sub[d[2] as usize], CLEARED[d[3] as usize])
                    } else {
                        (vec![1, 3], true, (i - product(&radices)) as u8, CLEARED[0])
                    };
                    let payload: Vec<u8> = if with_payload { vec![0xFF, 0x00, 0x7F] } else { vec![] };
                    let case = || Json::obj().set("options_in_call_order", sel.iter().map(|k| TV_OPTS[*k].0).collect::<Vec<_>>()).set("code", reg::dotted(code)).set("payload_len", payload.len()).set("added_then_cleared_options", format!("{:?}", cleared));
                    let r = guard(|| {
                        // raw construction
                        let mut raw = Packet::new();
                        raw.header.code = MessageClass::from(code);
                        for c in cleared {
                            raw.add_option(CoapOption::from(*c), vec![0xCC]);
                            raw.clear_option(CoapOption::from(*c));
                        }
                        for k in &sel {
                            raw.add_option(CoapOption::from(TV_OPTS[*k].0), TV_OPTS[*k].1.to_vec());
                        }
                        raw.payload = payload.clone();
                        // construction through the writer trait
                        let mut via = Packet::new();
                        for c in cleared {
                            Fin::fin(MinimalWritableMessage::add_option(&mut via, CoapOption::from(*c), &[0xCC]));
                            via.clear_option(CoapOption::from(*c));
                        }
                        MinimalWritableMessage::set_code(&mut via, MessageClass::from(code));
                        for k in &sel {
                            Fin::fin(MinimalWritableMessage::add_option(&mut via, CoapOption::from(TV_OPTS[*k].0), TV_OPTS[*k].1));
                        }
                        Fin::fin(MinimalWritableMessage::set_payload(&mut via, &payload));
                        // reader view
                        let view_code: u8 = ReadableMessage::code(&raw).into();
                        let view_payload = ReadableMessage::payload(&raw).to_vec();
                        let view_opts: Vec<(u32, Vec<u8>)> = ReadableMessage::options(&raw).map(|o| (o.number() as u32, o.value().to_vec())).collect();
                        // copy through the generic interface
                        let mut copy = Packet::new();
                        copy.add_option(CoapOption::from(7u16), vec![1]); // something unrelated that must survive is NOT required; use a fresh one instead
                        let mut copy = Packet::new();
                        Fin::fin(MinimalWritableMessage::set_from_message(&mut copy, &raw));
                        // mutators
                        let mut mt = raw.clone();
                        {
                            let buf = Fin::fin(MutableWritableMessage::payload_mut_with_len(&mut mt, 5));
                            buf[4] = 0xEE;
                        }
                        let after_len = mt.payload.clone();
                        Fin::fin(MutableWritableMessage::truncate(&mut mt, 2));
                        let after_trunc = mt.payload.clone();
                        let mut seen: Vec<(u16, Vec<u8>)> = Vec::new();
                        MutableWritableMessage::mutate_options(&mut mt, |num, val| {
                            seen.push((u16::from(num), val.to_vec()));
                            for b in val.iter_mut() {
                                *b ^= 0xFF;
                            }
                        });
                        (raw, via, view_code, view_payload, view_opts, copy, after_len, after_trunc, seen, to_ref(&mt))
                    });
                    match r {
                        Err(pn) => rep.violation(viol(fam, i, format!("C19/panic@{}", pn.site()), pn.message, case())),
                        Ok((raw, via, vc, vp, vo, copy, after_len, after_trunc, seen, mutated)) => {
                            let rr = to_ref(&raw);
                            let mut bad: Option<(&str, String)> = None;
                            // expected flattening computed independently: stable sort of call order by number
                            let mut exp: Vec<(u32, Vec<u8>)> = sel.iter().map(|k| (TV_OPTS[*k].0 as u32, TV_OPTS[*k].1.to_vec())).collect();
                            exp.sort_by_key(|o| o.0);
                            if vc != code || vp != payload || vo != exp || rr.options != exp {
                                bad = Some(("C19/trait-reader-view", format!("code {:#04x} payload {:?} options {:?}; expected code {:#04x} options {:?}", vc, vp, vo, code, exp)));
                            } else if via != raw {
                                bad = Some(("C19/trait-writer-state", format!("writer-built {:?} differs from raw-built {:?}", msg_json(&to_ref(&via)).to_string(), msg_json(&rr).to_string())));
                            } else {
                                let c = to_ref(&copy);
                                if c.code != code || c.options != exp || c.payload != payload {
                                    bad = Some(("C19/trait-copy", format!("set_from_message gave code {:#04x} options {:?} payload {:?}", c.code, c.options, c.payload)));
                                }
                            }
                            if bad.is_none() {
                                let mut exp_len = payload.clone();
                                exp_len.resize(5, 0);
                                exp_len[4] = 0xEE;
                                let exp_flat: Vec<(u16, Vec<u8>)> = exp.iter().map(|o| (o.0 as u16, o.1.clone())).collect();
                                let exp_mut: Vec<(u32, Vec<u8>)> = exp.iter().map(|o| (o.0, o.1.iter().map(|b| b ^ 0xFF).collect())).collect();
                                if after_len != exp_len || after_trunc != exp_len[..2].to_vec() || seen != exp_flat || mutated.options != exp_mut || mutated.payload != exp_len[..2].to_vec() {
                                    bad = Some(("C19/trait-mutators", format!("payload_mut_with_len -> {:?}, truncate -> {:?}, mutate_options saw {:?}, result {:?}", after_len, after_trunc, seen, mutated.options)));
                                }
                            }
                            match bad {
                                Some((sig, what)) => rep.violation(viol(fam, i, sig, what, case())),
                                None => {
                                    rep.count("trait-views-agree");
                                    rep.bucket(&($label, sel.len(), with_payload, code, cleared, sel.windows(2).any(|w| TV_OPTS[w[0]].0 > TV_OPTS[w[1]].0)));
                                }
                            }
                        }
                    }
                    if ctx.want_sample(i, n) {
                        rep.sample(Json::obj().set("family", fam).set("index", i).set("case", case()));
                    }
                },
            );
        }
    };
}

trait_views!(trait_views_02, coap_message, "0.2");
trait_views!(trait_views_03, coap_message_0_3, "0.3");

pub fn run(ctx: &Ctx, rep: &mut Report) {
    named_values(ctx, rep);
    paths(ctx, rep);
    histories(ctx, rep);
    trait_views_02(ctx, rep);
    trait_views_03(ctx, rep);
    let _ = (pattern(0, 0), RefMsg::default());
    rep.assume("refmodel::registries names; for single-valued options (Content-Format, Observe) 'what the views show' is the first value; for Uri-Path it is the whole list");
    rep.assume("random path strings / random messages named in the quantifier are replaced by exhaustive families");
}
