//! C05 — protocol numbers match the IANA/RFC registries and map one-to-one.
//! The whole finite number spaces are enumerated (E1, exhaustive).

use coap_lite::{CoapOption, ContentFormat, Header, MessageClass, MessageType, ObserveOption, Packet, ResponseType};
use mccore::{guard, viol, Ctx, Json, Report};
use refmodel::registries as reg;
use std::convert::TryFrom;

fn variant_name<T: std::fmt::Debug>(t: &T) -> String {
    let s = format!("{:?}", t);
    s.split('(').next().unwrap().to_string()
}

pub fn run(ctx: &Ctx, rep: &mut Report) {
    // ---- option numbers
    {
        let n = 65536u64;
        ctx.family(rep, "options", "all 65536 option numbers: number -> name -> number, name vs registry", n, true, |i, rep| {
            let num = i as u16;
            if ctx.want_sample(i, n) {
                rep.sample(Json::obj().set("family", "options").set("option_number", num).set("maps_to", format!("{:?}", CoapOption::from(num))));
            }
            let r = guard(|| {
                let o = CoapOption::from(num);
                (o, u16::from(o))
            });
            let case = || Json::obj().set("option_number", num);
            match r {
                Err(pn) => rep.violation(viol("options", i, format!("C05/panic@{}", pn.site()), pn.message, case())),
                Ok((o, back)) => {
                    if back != num {
                        rep.violation(viol(
                            "options",
                            i,
                            "C05/option-number-not-identity",
                            format!("{} -> {:?} -> {}", num, o, back),
                            case(),
                        ));
                        return;
                    }
                    let entry = reg::OPTIONS.iter().find(|e| e.0 == num);
                    let name = variant_name(&o);
                    match (entry, o) {
                        (Some((_, iana, expect)), _) if !expect.is_empty() => {
                            if &name != expect {
                                rep.violation(viol(
                                    "options",
                                    i,
                                    "C05/option-name-mismatch",
                                    format!("option {} is {} in the registry, the crate calls it {:?}", num, iana, o),
                                    case(),
                                ));
                                return;
                            }
                            rep.count("named-option-matches-registry");
                            rep.bucket(&("opt", num));
                        }
                        (_, CoapOption::Unknown(x)) => {
                            if x != num {
                                rep.violation(viol("options", i, "C05/unknown-option-wrong-number", format!("{} -> Unknown({})", num, x), case()));
                                return;
                            }
                            rep.count("unnamed-option-unknown");
                        }
                        (Some((_, iana, _)), _) => {
                            // a registered number the crate might name in future: accept iff the name agrees
                            if reg::norm(&name) != reg::norm(iana) {
                                rep.violation(viol(
                                    "options",
                                    i,
                                    "C05/option-name-mismatch",
                                    format!("option {} is {} in the registry, the crate calls it {:?}", num, iana, o),
                                    case(),
                                ));
                                return;
                            }
                            rep.count("additional-named-option-matches-registry");
                        }
                        (None, _) if coap_numbers::option::to_name(num).map(|n| reg::norm(n) == reg::norm(&name)).unwrap_or(false) => {
                            // not in the transcribed table, but the IANA-derived coap-numbers crate knows the number under
                            // this very name: a registration newer than the table
                            rep.count("additional-named-option-matches-coap-numbers");
                        }
                        (None, _) => {
                            rep.violation(viol(
                                "options",
                                i,
                                "C05/unassigned-option-aliased",
                                format!("option number {} is not in the registry table but maps to the named value {:?}", num, o),
                                case(),
                            ));
                        }
                    }
                }
            }
        });
        // every named variant -> number -> same variant
        let named: Vec<CoapOption> = reg::OPTIONS.iter().filter(|e| !e.2.is_empty()).map(|e| CoapOption::from(e.0)).collect();
        let n = named.len() as u64;
        ctx.family(rep, "options-by-name", "every named option: name -> number -> name, number == registry", n, true, |i, rep| {
            let o = named[i as usize];
            let num = u16::from(o);
            let back = CoapOption::from(num);
            let expect = reg::OPTIONS.iter().filter(|e| !e.2.is_empty()).nth(i as usize).unwrap();
            if back != o || num != expect.0 || variant_name(&o) != expect.2 {
                rep.violation(viol(
                    "options-by-name",
                    i,
                    "C05/option-name-roundtrip",
                    format!("{:?} -> {} -> {:?}, registry says {} = {}", o, num, back, expect.0, expect.1),
                    Json::obj().set("option_number", num),
                ));
            } else {
                rep.count("name-roundtrip-ok");
            }
        });
    }
    // ---- content formats
    {
        let extra: [usize; 6] = [65536, 65537, 1 << 20, 1 << 32, usize::MAX - 1, usize::MAX];
        let n = 65536u64 + extra.len() as u64;
        ctx.family(rep, "content-formats", "all content-format ids 0..=65535 plus {65536, 65537, 2^20, 2^32, usize::MAX-1, usize::MAX}", n, true, |i, rep| {
            let id: usize = if i < 65536 { i as usize } else { extra[(i - 65536) as usize] };
            let case = || Json::obj().set("content_format_id", id as u64);
            if ctx.want_sample(i, n) {
                rep.sample(Json::obj().set("family", "content-formats").set("id", id as u64).set("maps_to", format!("{:?}", ContentFormat::try_from(id))));
            }
            let r = guard(|| ContentFormat::try_from(id).map(|cf| (cf, usize::from(cf))));
            let entry = if id < 65536 { reg::CONTENT_FORMATS.iter().find(|e| e.0 as usize == id) } else { None };
            match r {
                Err(pn) => rep.violation(viol("content-formats", i, format!("C05/panic@{}", pn.site()), pn.message, case())),
                Ok(Ok((cf, back))) => {
                    let name = variant_name(&cf);
                    if back != id {
                        rep.violation(viol(
                            "content-formats",
                            i,
                            "C05/content-format-not-identity",
                            format!("{} -> {:?} -> {}", id, cf, back),
                            case(),
                        ));
                        return;
                    }
                    match entry {
                        Some((_, media, expect)) if !expect.is_empty() => {
                            if &name != expect {
                                rep.violation(viol(
                                    "content-formats",
                                    i,
                                    "C05/content-format-name-mismatch",
                                    format!("id {} is {} in the registry (expected variant {}), the crate says {:?}", id, media, expect, cf),
                                    case(),
                                ));
                                return;
                            }
                            rep.count("named-content-format-matches-registry");
                            rep.bucket(&("cf", id));
                        }
                        _ => {
                            // unnamed in the reference table: only acceptable if it does not reuse a name given to another id
                            if reg::CONTENT_FORMATS.iter().any(|e| e.2 == name) || id > 65535 {
                                rep.violation(viol(
                                    "content-formats",
                                    i,
                                    "C05/unassigned-content-format-aliased",
                                    format!("id {} has no name in the registry table but maps to {:?}", id, cf),
                                    case(),
                                ));
                                return;
                            }
                            rep.count("additional-content-format");
                        }
                    }
                }
                Ok(Err(_)) => match entry {
                    Some((_, media, expect)) if !expect.is_empty() => {
                        rep.violation(viol(
                            "content-formats",
                            i,
                            "C05/named-content-format-rejected",
                            format!("id {} ({}) is named {} but is reported invalid", id, media, expect),
                            case(),
                        ));
                    }
                    _ => rep.count("unnamed-content-format-invalid"),
                },
            }
        });
    }
    // ---- observe actions
    {
        let vals: Vec<usize> = (0..=300).chain([65535, 65536, 1 << 24, usize::MAX]).collect();
        let n = vals.len() as u64;
        ctx.family(rep, "observe-actions", "observe request values 0..=300 and large ones: 0 Register, 1 Deregister, everything else invalid", n, true, |i, rep| {
            let v = vals[i as usize];
            let r = ObserveOption::try_from(v);
            let expect = reg::OBSERVE_ACTIONS.iter().find(|e| e.0 as usize == v);
            match (r, expect) {
                (Ok(o), Some((_, name))) if &variant_name(&o) == name && usize::from(o) == v => {
                    rep.count("observe-action-ok");
                    rep.bucket(&("obs", v));
                }
                (Err(_), None) => rep.count("observe-invalid-ok"),
                (r, _) => rep.violation(viol(
                    "observe-actions",
                    i,
                    "C05/observe-action-mismatch",
                    format!("observe value {} -> {:?}", v, r),
                    Json::obj().set("value", v as u64),
                )),
            }
        });
    }
    // ---- codes
    {
        let n = 256u64;
        ctx.family(rep, "codes", "all 256 code bytes: byte -> class -> byte, name vs registry, c.dd text both ways, is_error", n, true, |i, rep| {
            let b = i as u8;
            if ctx.want_sample(i, n) {
                rep.sample(Json::obj().set("family", "codes").set("code_byte", b).set("maps_to", format!("{:?}", MessageClass::from(b))));
            }
            let case = || Json::obj().set("code_byte", b).set("dotted", reg::dotted(b));
            let r = guard(|| {
                let c = MessageClass::from(b);
                let back = u8::from(c);
                let text = c.to_string();
                let mut h = Header::new();
                h.set_code(&reg::dotted(b));
                let via_text = u8::from(h.code);
                let text2 = h.get_code();
                h.code = c;
                let text3 = h.get_code();
                // through the wire
                let mut p = Packet::new();
                p.header.code = c;
                let wire = p.to_bytes().map(|w| w[1]);
                let parsed = Packet::from_bytes(&[0x40, b, 0, 0]).map(|p| p.header.code);
                (c, back, text, via_text, text2, text3, wire, parsed)
            });
            match r {
                Err(pn) => rep.violation(viol("codes", i, format!("C05/panic@{}", pn.site()), pn.message, case())),
                Ok((c, back, text, via_text, text2, text3, wire, parsed)) => {
                    let dbg = format!("{:?}", c);
                    let expect = reg::code_expected_debug(b);
                    let mut bad: Option<(String, String)> = None;
                    if back != b {
                        bad = Some(("C05/code-byte-not-identity".into(), format!("{:#04x} -> {:?} -> {:#04x}", b, c, back)));
                    } else if let Some(e) = &expect {
                        if &dbg != e {
                            bad = Some(("C05/code-name-mismatch".into(), format!("{} is {} in the registry, the crate says {}", reg::dotted(b), e, dbg)));
                        }
                    } else if dbg != format!("Reserved({})", b) {
                        bad = Some(("C05/unassigned-code-aliased".into(), format!("{} is unassigned but maps to {}", reg::dotted(b), dbg)));
                    }
                    if bad.is_none() && text != reg::dotted(b) {
                        bad = Some(("C05/code-display".into(), format!("Display gives {:?}, expected {:?}", text, reg::dotted(b))));
                    }
                    if bad.is_none() && (via_text != b || text2 != reg::dotted(b) || text3 != reg::dotted(b)) {
                        bad = Some((
                            "C05/set_code-get_code".into(),
                            format!("set_code({:?}) gives byte {:#04x}, get_code {:?} / {:?}", reg::dotted(b), via_text, text2, text3),
                        ));
                    }
                    if bad.is_none() && (wire.as_ref().ok() != Some(&b) || parsed.as_ref().ok() != Some(&c)) {
                        bad = Some(("C05/code-wire".into(), format!("encoded code byte {:?}, parsed class {:?}", wire, parsed)));
                    }
                    if let MessageClass::Response(rt) = c {
                        let e = guard(|| rt.is_error());
                        if bad.is_none() && e != Ok(b >= 0x80) {
                            bad = Some(("C05/is_error".into(), format!("{} is_error() = {:?}", reg::dotted(b), e)));
                        }
                    }
                    match bad {
                        Some((sig, what)) => rep.violation(viol("codes", i, sig, what, case())),
                        None => {
                            rep.count(if expect.is_some() { "registered-code-ok" } else { "unassigned-code-reserved" });
                            rep.bucket(&("code", b));
                        }
                    }
                }
            }
        });
        // every named response type: is_error <=> class >= 4; name -> byte == registry
        let n = reg::RESPONSES.len() as u64 + reg::METHODS.len() as u64;
        ctx.family(rep, "codes-by-name", "every registered method and response code: registry byte -> class has the registry's name, is_error iff class >= 4", n, true, |i, rep| {
            let (byte, expect) = if (i as usize) < reg::METHODS.len() {
                let m = reg::METHODS[i as usize];
                (m.0, format!("Request({})", m.2))
            } else {
                let r = reg::RESPONSES[i as usize - reg::METHODS.len()];
                (reg::response_byte(r.0, r.1), format!("Response({})", r.3))
            };
            let c = MessageClass::from(byte);
            let ok = format!("{:?}", c) == expect
                && u8::from(c) == byte
                && match c {
                    MessageClass::Response(rt) => rt.is_error() == (byte >> 5 >= 4),
                    _ => true,
                };
            if ok {
                rep.count("named-code-ok");
            } else {
                rep.violation(viol(
                    "codes-by-name",
                    i,
                    "C05/code-name-mismatch",
                    format!("registry: {:#04x} = {}, crate: {:?}", byte, expect, c),
                    Json::obj().set("code_byte", byte),
                ));
            }
        });
        // is_error for EVERY response variant the type has, including the catch-all: error <=> its byte is >= 0x80
        {
            let mut variants: Vec<ResponseType> = reg::RESPONSES
                .iter()
                .filter_map(|r| match MessageClass::from(reg::response_byte(r.0, r.1)) {
                    MessageClass::Response(rt) => Some(rt),
                    _ => None,
                })
                .collect();
            variants.push(ResponseType::UnKnown);
            let n = variants.len() as u64;
            ctx.family(rep, "is-error-all-variants", "every ResponseType variant (27 named + UnKnown): is_error() iff the byte it encodes to is >= 0x80 (4.00)", n, true, |i, rep| {
                let rt = variants[i as usize];
                let byte = u8::from(MessageClass::Response(rt));
                match guard(|| rt.is_error()) {
                    Ok(e) if e == (byte >= 0x80) => {
                        rep.count("is-error-ok");
                        rep.bucket(&("iserr", byte));
                    }
                    other => rep.violation(viol(
                        "is-error-all-variants",
                        i,
                        "C05/is_error",
                        format!("{:?} encodes to {:#04x} ({}), is_error() = {:?}", rt, byte, reg::dotted(byte), other),
                        Json::obj().set("variant", format!("{:?}", rt)).set("code_byte", byte),
                    )),
                }
            });
        }
        // the catch-all variants must not collide with a registered code
        let unk = [u8::from(MessageClass::Response(ResponseType::UnKnown)), u8::from(MessageClass::Request(coap_lite::RequestType::UnKnown))];
        for u in unk {
            if reg::code_expected_debug(u).is_some() {
                rep.violation(viol("codes-by-name", 0, "C05/unknown-aliases-registered-code", format!("UnKnown encodes as registered code {:#04x}", u), Json::Null));
            }
        }
    }
    // ---- message types x all 256 prior header bytes; header bit fields of all 256 first bytes
    {
        let n = 4 * 256u64;
        ctx.family(rep, "types", "4 message types x all 256 prior first-header-bytes: set_type changes bits 5-4 only, get_type reads them back, registry values", n, true, |i, rep| {
            let t = (i / 256) as u8;
            let prior = (i % 256) as u8;
            let case = || Json::obj().set("type", t).set("prior_first_byte", prior);
            let r = guard(|| {
                // the header alone (HeaderRaw -> Header): a datagram parser may legitimately refuse version != 1
                let raw = coap_lite::HeaderRaw::try_from(&[prior, 1, 0, 0][..]).ok()?;
                let mut h = Header::from_raw(&raw);
                let before = (h.get_version(), h.get_token_length());
                let ty = match t {
                    0 => MessageType::Confirmable,
                    1 => MessageType::NonConfirmable,
                    2 => MessageType::Acknowledgement,
                    _ => MessageType::Reset,
                };
                h.set_type(ty);
                let after = (h.get_version(), h.get_token_length());
                let name = format!("{:?}", h.get_type());
                let same = h.get_type() == ty;
                let mut hh = Packet::new();
                hh.header = h;
                // encoded first byte (token bytes are absent, so only look at byte 0 of the raw header)
                let raw = hh.header.to_raw();
                let mut v = Vec::with_capacity(4);
                raw.serialize_into(&mut v).ok()?;
                Some((before, after, name, same, v[0]))
            });
            match r {
                Err(pn) => rep.violation(viol("types", i, format!("C05/panic@{}", pn.site()), pn.message, case())),
                Ok(None) => rep.violation(viol("types", i, "C05/header-setup-failed", "could not construct the header", case())),
                Ok(Some((before, after, name, same, first))) => {
                    let expect_first = (prior & 0xCF) | (t << 4);
                    if before != after || !same || name != reg::TYPES[t as usize].1 || first != expect_first {
                        rep.violation(viol(
                            "types",
                            i,
                            "C05/message-type-field",
                            format!(
                                "set_type({}) on first byte {:#04x}: version/tkl {:?} -> {:?}, get_type {:?}, encoded first byte {:#04x} (expected {:#04x})",
                                t, prior, before, after, name, first, expect_first
                            ),
                            case(),
                        ));
                    } else {
                        rep.count("type-ok");
                        rep.bucket(&("type", t, prior >> 6, prior & 0xF));
                    }
                }
            }
        });
        let n = 256u64;
        ctx.family(rep, "first-byte", "all 256 first header bytes parsed: version = bits 7-6, type = bits 5-4, token length = bits 3-0", n, true, |i, rep| {
            let b = i as u8;
            let tkl = (b & 0xF) as usize;
            let mut bytes = vec![b, 0x01, 0xAB, 0xCD];
            bytes.extend(std::iter::repeat(0x11).take(tkl.min(8)));
            // header fields straight from the raw header ...
            let hr = guard(|| coap_lite::HeaderRaw::try_from(&bytes[..]).map(|raw| Header::from_raw(&raw)));
            match &hr {
                Ok(Ok(h)) if h.get_version() == b >> 6 && crate::common::mtype_to_u8(h.get_type()) == (b >> 4) & 3 && h.get_token_length() == b & 0xF => {}
                other => {
                    rep.violation(viol("first-byte", i, "C05/first-byte-fields", format!("Header::from_raw of first byte {:#04x}: {:?}", b, other.as_ref().map(|r| r.as_ref().map(|h| (h.get_version(), h.get_token_length())))), Json::obj().set("first_byte", b)));
                    return;
                }
            }
            // ... and through the datagram parser (which may refuse version != 1)
            let r = guard(|| Packet::from_bytes(&bytes));
            match r {
                Err(pn) => rep.violation(viol("first-byte", i, format!("C05/panic@{}", pn.site()), pn.message, Json::obj().set("first_byte", b))),
                Ok(Ok(p)) => {
                    let ok = p.header.get_version() == b >> 6
                        && crate::common::mtype_to_u8(p.header.get_type()) == (b >> 4) & 3
                        && p.header.get_token_length() == b & 0xF
                        && format!("{:?}", p.header.get_type()) == reg::TYPES[((b >> 4) & 3) as usize].1
                        && tkl <= 8;
                    if ok {
                        rep.count("first-byte-fields-ok");
                        rep.bucket(&("fb", b));
                    } else {
                        rep.violation(viol(
                            "first-byte",
                            i,
                            "C05/first-byte-fields",
                            format!("first byte {:#04x} parsed as version {} type {:?} tkl {}", b, p.header.get_version(), p.header.get_type(), p.header.get_token_length()),
                            Json::obj().set("first_byte", b),
                        ));
                    }
                }
                Ok(Err(_)) => {
                    if tkl <= 8 && b >> 6 == 1 {
                        rep.violation(viol("first-byte", i, "C05/first-byte-rejected", format!("first byte {:#04x} (version 1) with a complete token rejected", b), Json::obj().set("first_byte", b)));
                    } else if tkl <= 8 {
                        rep.count("version-not-1-rejected-by-a-stricter-parser");
                    } else {
                        rep.count("tkl-9-15-rejected");
                    }
                }
            }
        });
    }
    // ---- cross-examination of the hand-transcribed tables against the coap-numbers crate (IANA-derived)
    {
        let mut disagreements = 0u64;
        for (num, name, _) in reg::OPTIONS {
            if coap_numbers::option::to_name(*num) != Some(*name) {
                disagreements += 1;
            }
        }
        for (id, media, _) in reg::CONTENT_FORMATS {
            if coap_numbers::content_format::to_str(*id) != Some(*media) {
                disagreements += 1;
            }
        }
        for (c, d, name, _) in reg::RESPONSES {
            if coap_numbers::code::to_name(reg::response_byte(*c, *d)) != Some(*name) {
                disagreements += 1;
            }
        }
        for (b, name, _) in reg::METHODS {
            if coap_numbers::code::to_name(*b) != Some(*name) {
                disagreements += 1;
            }
        }
        rep.note("reference_table_entries_disagreeing_with_coap_numbers_crate", disagreements);
        if disagreements != 0 {
            eprintln!("MACHINERY: hand-transcribed registry tables disagree with the coap-numbers crate in {} entries", disagreements);
            std::process::exit(2);
        }
    }
    rep.assume("refmodel::registries (hand-transcribed IANA/RFC tables) is the trusted reference; it is cross-checked entry by entry against the independent IANA-derived `coap-numbers` crate on every run");
    rep.assume("a number the reference table lists without a crate name may be named by the crate in future if the name agrees with the registry; an unlisted number must be unknown/reserved/invalid");
}
