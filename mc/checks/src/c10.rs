//! C10 — block-wise messages respect the size budget and the client's block size.
//! Oracle by direct measurement of every encoded reply (and of the client's next upload block).

use crate::blockwise::*;
use mccore::{decode, product, viol, Ctx, Json, Report};
use refmodel::block as rb;
use std::time::Duration;

/// Budget selector: 0..65 => overhead+28+i; 65..100 => overhead+12+2^k+d (k=4..10, d=-2..2); 100 => 1152; 101 => 1280
fn budget_for(sel: u64, ovh: usize) -> Option<usize> {
    let b = if sel < 65 {
        ovh + 28 + sel as usize
    } else if sel < 100 {
        let j = sel - 65;
        let k = 4 + (j / 5) as u32;
        let d = (j % 5) as i64 - 2;
        (ovh as i64 + 12 + (1i64 << k) + d) as usize
    } else if sel == 100 {
        1152
    } else if sel == 101 {
        1280
    } else {
        ovh + 93 + (sel - 102) as usize
    };
    if b < ovh + 28 || b > 1280 {
        None
    } else {
        Some(b)
    }
}
const NBUDGETS: u64 = 102;
/// thorough: additionally every budget overhead+93 ..= 1280 (selector 102 + k)
const NBUDGETS_ALL: u64 = 102 + 1280;

fn check_size_choice(szx: u8, client: Option<u8>, ovh: usize, budget: usize) -> Result<(), (String, String)> {
    if szx > 6 {
        return Err(("C10/block-size-not-16-to-1024".into(), format!("server chose SZX {}", szx)));
    }
    if let Some(c) = client {
        if rb::size(szx) > rb::size(c) {
            return Err(("C10/block-larger-than-client-asked".into(), format!("client asked for SZX {}, server chose {}", c, szx)));
        }
        if c <= 6 && ovh + rb::size(c) + 32 <= budget && szx != c {
            return Err((
                "C10/client-size-not-honoured".into(),
                format!("client size {} fits budget {} with overhead {} and 32 to spare, but the server chose {}", rb::size(c), budget, ovh, rb::size(szx)),
            ));
        }
    }
    Ok(())
}

fn download(budget: usize, token_len: usize, opts: &[(u16, Vec<u8>)], client: Option<u8>, body_len: usize, rep: &mut Report) -> Result<&'static str, (String, String)> {
    let the_body = body(body_len, 0x33);
    let ovh = reply_overhead(token_len, opts);
    let mut srv = Server::new(budget, Duration::from_secs(3600));
    clock::reset();
    let o = opts.to_vec();
    let b = the_body.clone();
    let app = move |_c: &AppCall| AppReply { code: 0x45, options: o.clone(), payload: b.clone() };
    let token: Vec<u8> = (0..token_len as u8).map(|i| 0xA0 + i).collect();
    let mut mid = 500u16;
    let mut x = srv.exchange(1, &request_bytes(0, 1, mid, &token, &["r"], &[], None, client.map(|s| (0, false, s)), &[]), &app);
    rep.visit(&srv.snapshot());
    let mut received = Vec::new();
    let mut blocks = 0;
    loop {
        if let Some((stage, pn)) = &x.panic {
            return Err((format!("C10/panic@{}", pn.site()), format!("{:?}: {}", stage, pn.message)));
        }
        let bytes = x.reply.clone().ok_or(("C10/no-reply".to_string(), "no reply".to_string()))?;
        if let Some((stage, code, msg, _)) = &x.error {
            return Err(("C10/handler-error-inside-domain".into(), format!("{:?}: {:?} {:?}", stage, code.map(refmodel::registries::dotted), msg)));
        }
        if bytes.len() > budget {
            return Err((
                "C10/reply-exceeds-budget".into(),
                format!("reply of {} bytes (block {}) exceeds the configured maximum message size {}", bytes.len(), blocks, budget),
            ));
        }
        let reply = parse_reply(&bytes).ok_or(("C10/undecodable-reply".to_string(), "reply does not parse".to_string()))?;
        match block_opt(&reply, 23) {
            None => {
                received.extend_from_slice(&reply.payload);
                break;
            }
            Some((num, more, szx)) => {
                check_size_choice(szx, if blocks == 0 { client } else { None }, ovh, budget)?;
                let _ = num;
                received.extend_from_slice(&reply.payload);
                blocks += 1;
                if !more || blocks > 2000 {
                    break;
                }
                mid += 1;
                let next = (received.len() / rb::size(szx)) as u32;
                x = srv.exchange(1, &request_bytes(0, 1, mid, &token, &["r"], &[], None, Some((next, false, szx)), &[]), &app);
                rep.visit(&srv.snapshot());
            }
        }
    }
    if received != the_body {
        rep.count("download-body-mismatch(reported-by-C08-not-a-C10-clause)");
    }
    Ok(if blocks == 0 { "download-unfragmented" } else if blocks == 1 { "download-one-block" } else { "download-many-blocks" })
}

#[allow(clippy::too_many_arguments)]
fn upload(budget: usize, token: &[u8], path: &[&str], extra: &[(u32, Vec<u8>)], client: u8, body_len: usize, big_reply: bool, rep: &mut Report) -> Result<&'static str, (String, String)> {
    let the_body = body(body_len, 0x55);
    let mut srv = Server::new(budget, Duration::from_secs(3600));
    clock::reset();
    // the application's reply to the completed upload is either empty or itself too large for one message
    let app = move |_c: &AppCall| AppReply { code: 0x44, options: vec![], payload: if big_reply { body(2000, 0x3C) } else { vec![] } };
    let mut mid = 700u16;
    let mut offset = 0usize;
    let mut szx = client;
    let mut renegotiated = false;
    let mut rounds = 0;
    loop {
        rounds += 1;
        if rounds > 4000 {
            return Err(("C10/upload-does-not-end".into(), "more than 4000 blocks".into()));
        }
        let size = rb::size(szx);
        let end = (offset + size).min(body_len);
        let more = end < body_len;
        let num = (offset / size) as u32;
        let req = request_bytes(0, 3, mid, token, path, extra, Some((num, more, szx)), None, &the_body[offset..end]);
        let req_ovh = request_bytes(0, 3, mid, token, path, extra, Some((num, more, szx)), None, &[]).len();
        let x = srv.exchange(1, &req, &app);
        rep.visit(&srv.snapshot());
        mid += 1;
        if let Some((stage, pn)) = &x.panic {
            return Err((format!("C10/panic@{}", pn.site()), format!("{:?}: {}", stage, pn.message)));
        }
        let bytes = x.reply.clone().ok_or(("C10/no-reply".to_string(), "no reply".to_string()))?;
        if let Some((stage, code, msg, _)) = &x.error {
            return Err(("C10/handler-error-inside-domain".into(), format!("{:?}: {:?} {:?}", stage, code.map(refmodel::registries::dotted), msg)));
        }
        if bytes.len() > budget {
            return Err(("C10/reply-exceeds-budget".into(), format!("reply of {} bytes to upload block {} exceeds the budget {}", bytes.len(), num, budget)));
        }
        let reply = parse_reply(&bytes).ok_or(("C10/undecodable-reply".to_string(), "reply does not parse".to_string()))?;
        let (_, _, s2) = block_opt(&reply, 27).ok_or(("C10/block1-acknowledgement-missing".to_string(), format!("reply {} to a Block1 request carries no Block1 option", refmodel::registries::dotted(reply.code))))?;
        check_size_choice(s2, Some(szx), req_ovh, budget)?;
        offset = end;
        if !more {
            if big_reply {
                // the response to the final block must itself have been fragmented (it carries a Block2 option) ...
                match block_opt(&reply, 23) {
                    Some((0, true, s)) if s <= 6 => {}
                    other => {
                        return Err((
                            "C10/large-reply-to-upload-not-fragmented".into(),
                            format!("a 2000-byte reply to the final upload block came back with Block2 {:?} in a message of {} bytes (budget {})", other, bytes.len(), budget),
                        ))
                    }
                }
            }
            break;
        }
        // the client's next block with the acknowledged size must fit
        if s2 != szx {
            renegotiated = true;
        }
        let nsize = rb::size(s2);
        let nend = (offset + nsize).min(body_len);
        let next = request_bytes(0, 3, mid, token, path, extra, Some(((offset / nsize) as u32, nend < body_len, s2)), None, &the_body[offset..nend]);
        if next.len() > budget {
            return Err((
                "C10/next-upload-block-exceeds-budget".into(),
                format!("the server acknowledged block size {}, but the client's next block then encodes to {} bytes > budget {}", nsize, next.len(), budget),
            ));
        }
        szx = s2;
    }
    let delivered = srv.app_calls.last().map(|c| c.request.payload.clone());
    if delivered.as_ref() != Some(&the_body) {
        rep.count("upload-body-mismatch(reported-by-C09-not-a-C10-clause)");
    }
    Ok(if renegotiated { "upload-renegotiated" } else { "upload-client-size-kept" })
}

/// One request shape: (token, extra options). The cache key (endpoint, method, path) does not depend on it.
type Shape<'a> = (&'a [u8], &'a [(u32, Vec<u8>)]);

/// An upload whose requests do not all look alike: the token and the Uri-Query differ from block to block
/// (`pattern`), optionally after an abandoned upload on the same key whose requests had yet another shape. What the
/// handler acknowledges for a block is judged against the overhead of *that* request, and the hypothetical next block
/// of the same shape must fit; the real next block uses the largest size <= the acknowledged one that fits its own shape.
#[allow(clippy::too_many_arguments)]
fn upload_shapes(budget: usize, lean: Shape, fat: Shape, pattern: u8, pred: u8, client: u8, body_len: usize, rep: &mut Report) -> Result<&'static str, (String, String)> {
    let the_body = body(body_len, 0x55);
    let path: &[&str] = &["a"];
    let mut srv = Server::new(budget, Duration::from_secs(3600));
    clock::reset();
    let app = move |_c: &AppCall| AppReply { code: 0x44, options: vec![], payload: vec![] };
    let shape_of = |block: usize| -> Shape {
        let f = match pattern {
            0 => false,
            1 => true,
            2 => block >= 1,
            3 => block == 0,
            4 => block % 2 == 1,
            5 => block % 2 == 0,
            _ => block >= 2,
        };
        if f {
            fat
        } else {
            lean
        }
    };
    let mut mid = 300u16;
    // ---- abandoned predecessor on the same key: 1 or 2 blocks of a lean or fat upload
    if pred > 0 {
        let (ptoken, pextra) = if pred == 3 { fat } else { lean };
        let pbody = body(8 * rb::size(client), 0x21);
        let blocks = if pred == 2 { 2 } else { 1 };
        let mut szx = client;
        let mut offset = 0usize;
        for _ in 0..blocks {
            let size = rb::size(szx);
            let req = request_bytes(0, 3, mid, ptoken, path, pextra, Some(((offset / size) as u32, true, szx)), None, &pbody[offset..offset + size]);
            mid += 1;
            let x = srv.exchange(1, &req, &app);
            offset += size;
            if let Some((_, _, s2)) = x.reply.as_deref().and_then(parse_reply).and_then(|r| block_opt(&r, 27)) {
                if s2 < szx {
                    szx = s2;
                }
            }
        }
    }
    mid = 700;
    let mut offset = 0usize;
    let mut szx = client;
    let mut block = 0usize;
    loop {
        if block > 4000 {
            return Err(("C10/upload-does-not-end".into(), "more than 4000 blocks".into()));
        }
        let (token, extra) = shape_of(block);
        let ovh = |sz: u8, off: usize| request_bytes(0, 3, mid, token, path, extra, Some(((off / rb::size(sz)) as u32, true, sz)), None, &[]).len();
        // the client shrinks its block until this request (with its own shape) fits the budget
        while szx > 0 && ovh(szx, offset) + 1 + rb::size(szx).min(body_len - offset) > budget {
            szx -= 1;
        }
        let size = rb::size(szx);
        let end = (offset + size).min(body_len);
        let more = end < body_len;
        let num = (offset / size) as u32;
        let req = request_bytes(0, 3, mid, token, path, extra, Some((num, more, szx)), None, &the_body[offset..end]);
        let req_ovh = request_bytes(0, 3, mid, token, path, extra, Some((num, more, szx)), None, &[]).len();
        if req.len() > budget {
            return Err(("MACHINERY/c10-shape-request-too-large".into(), format!("harness built a request of {} bytes for budget {}", req.len(), budget)));
        }
        let x = srv.exchange(1, &req, &app);
        rep.visit(&srv.snapshot());
        mid += 1;
        if let Some((stage, pn)) = &x.panic {
            return Err((format!("C10/panic@{}", pn.site()), format!("{:?}: {}", stage, pn.message)));
        }
        let bytes = x.reply.clone().ok_or(("C10/no-reply".to_string(), "no reply".to_string()))?;
        if let Some((stage, code, msg, _)) = &x.error {
            return Err(("C10/handler-error-inside-domain".into(), format!("{:?}: {:?} {:?}", stage, code.map(refmodel::registries::dotted), msg)));
        }
        if bytes.len() > budget {
            return Err(("C10/reply-exceeds-budget".into(), format!("reply of {} bytes to upload block {} exceeds the budget {}", bytes.len(), num, budget)));
        }
        let reply = parse_reply(&bytes).ok_or(("C10/undecodable-reply".to_string(), "reply does not parse".to_string()))?;
        let (_, _, s2) = block_opt(&reply, 27).ok_or(("C10/block1-acknowledgement-missing".to_string(), format!("reply {} to a Block1 request carries no Block1 option", refmodel::registries::dotted(reply.code))))?;
        check_size_choice(s2, Some(szx), req_ovh, budget)?;
        offset = end;
        block += 1;
        if !more {
            break;
        }
        // a next block that looks like the one just acknowledged, with the acknowledged size, must fit
        let nsize = rb::size(s2);
        let nend = (offset + nsize).min(body_len);
        let next = request_bytes(0, 3, mid, token, path, extra, Some(((offset / nsize) as u32, nend < body_len, s2)), None, &the_body[offset..nend]);
        if next.len() > budget {
            return Err((
                "C10/next-upload-block-exceeds-budget".into(),
                format!("the server acknowledged block size {} for block {} (request overhead {}), but a next block of the same shape then encodes to {} bytes > budget {}", nsize, num, req_ovh, next.len(), budget),
            ));
        }
        if s2 < szx {
            szx = s2;
        }
    }
    Ok("upload-changing-shape")
}

pub fn run(ctx: &Ctx, rep: &mut Report) {
    // ---- downloads
    {
        let tokens = [0usize, 4, 8];
        let optsets: Vec<Vec<(u16, Vec<u8>)>> = vec![
            vec![],
            vec![(8, vec![b'L'; 60])],
            vec![(4, vec![1, 2, 3, 4, 5, 6, 7, 8]), (14, vec![0xFF, 0xFF, 0xFF, 0xFF]), (12, vec![0x2A, 0xF8])],
            // many instances of one option (every instance has its own header byte)
            (0..14).map(|k| (8u16, vec![b'a' + k as u8])).collect(),
        ];
        let clients: Vec<Option<u8>> = std::iter::once(None).chain((0..=7).map(Some)).collect();
        let radices = [if ctx.thorough() { NBUDGETS_ALL } else { NBUDGETS }, 3, optsets.len() as u64, clients.len() as u64, 11];
        let n = product(&radices);
        ctx.family(
            rep,
            "downloads",
            "budget (every value overhead+28..+92, +-2 around overhead+12+2^k for k=4..10, 1152, 1280; thorough: every value up to 1280) x token length {0,4,8} x application options {none, 60-byte Location-Path, ETag+Max-Age+Content-Format, 14 one-byte Location-Path segments} x client SZX {none, 0..7} x body {half a block, block-1, block, block+1, 2 blocks+1, 5 blocks+3, 20 blocks+1 relative to the room left by the budget, and budget-overhead-2..+1 (the largest body that fits unfragmented)}: every reply measured against the budget, size choice checked",
            n,
            true,
            |i, rep| {
                let d = decode(i, &radices);
                let token_len = tokens[d[1] as usize];
                let opts = &optsets[d[2] as usize];
                let ovh = reply_overhead(token_len, opts);
                let budget = match budget_for(d[0], ovh) {
                    Some(b) => b,
                    None => {
                        rep.count("skipped-budget-outside-[overhead+28,1280]");
                        return;
                    }
                };
                let room = budget - ovh - 12;
                let body_len = match d[4] {
                    0 => room / 2,
                    1 => room - 1,
                    2 => room,
                    3 => room + 1,
                    4 => 2 * room + 1,
                    5 => 5 * room + 3,
                    // more than 16 (and, with 16-byte blocks, more than 256) blocks: the Block2 value grows to 2 bytes
                    6 => (20 * room + 1).min(6000),
                    // around the largest body that still fits one unfragmented message: overhead + marker + body = budget
                    7 => budget - ovh - 2,
                    8 => budget - ovh - 1,
                    9 => budget - ovh,
                    _ => budget - ovh + 1,
                };
                let client = clients[d[3] as usize];
                let case = || Json::obj().set("direction", "download").set("budget", budget).set("reply_overhead", ovh).set("token_len", token_len).set("option_set", d[2]).set("client_szx", client).set("body_len", body_len);
                let mut local = Report::new();
                let r = mccore::guard(|| download(budget, token_len, opts, client, body_len, &mut local));
                rep.transitions += local.transitions;
                rep.traces_validated += local.traces_validated;
                rep.state_set.extend(local.state_set);
                for (k, v) in local.hist {
                    rep.count_n(&k, v);
                }
                match r {
                    Err(pn) => rep.violation(viol("downloads", i, format!("MACHINERY-or-C10/harness-panic@{}", pn.site()), pn.message, case())),
                    Ok(Ok(class)) => {
                        rep.count(class);
                        rep.bucket(&(class, client, d[4], d[2], token_len, (room as f64).log2() as u32));
                    }
                    Ok(Err((sig, what))) => {
                        rep.count("violation");
                        rep.violation(viol("downloads", i, sig, what, case()));
                    }
                }
                if ctx.want_sample(i, n) {
                    rep.sample(Json::obj().set("family", "downloads").set("index", i).set("case", case()));
                }
            },
        );
    }
    // ---- downloads: every body length at a handful of budgets
    {
        let rels: [usize; 10] = [28, 29, 43, 44, 45, 60, 61, 76, 92, 140];
        let clients: [Option<u8>; 4] = [None, Some(0), Some(1), Some(3)];
        let radices = [rels.len() as u64, 301, clients.len() as u64, 2];
        let n = product(&radices);
        ctx.family(
            rep,
            "downloads-every-length",
            "budget = overhead + {28,29,43,44,45,60,61,76,92,140} x every body length 0..=300 x client SZX {none,0,1,3} x token {0,8}: every reply measured against the budget",
            n,
            true,
            |i, rep| {
                let d = decode(i, &radices);
                let token_len = if d[3] == 1 { 8 } else { 0 };
                let ovh = reply_overhead(token_len, &[]);
                let budget = ovh + rels[d[0] as usize];
                let body_len = d[1] as usize;
                let client = clients[d[2] as usize];
                let case = || Json::obj().set("direction", "download").set("budget", budget).set("reply_overhead", ovh).set("token_len", token_len).set("client_szx", client).set("body_len", body_len);
                let mut local = Report::new();
                let r = mccore::guard(|| download(budget, token_len, &[], client, body_len, &mut local));
                rep.transitions += local.transitions;
                rep.traces_validated += local.traces_validated;
                rep.state_set.extend(local.state_set);
                match r {
                    Err(pn) => rep.violation(viol("downloads-every-length", i, format!("MACHINERY-or-C10/harness-panic@{}", pn.site()), pn.message, case())),
                    Ok(Ok(class)) => {
                        rep.count(class);
                        rep.bucket(&("every", class, client, d[0], body_len / 16));
                    }
                    Ok(Err((sig, what))) => {
                        rep.count("violation");
                        rep.violation(viol("downloads-every-length", i, sig, what, case()));
                    }
                }
            },
        );
    }
    // ---- uploads
    {
        let tokens: [&[u8]; 3] = [&[], &[1, 2, 3, 4], &[1, 2, 3, 4, 5, 6, 7, 8]];
        let long_seg = "s".repeat(60);
        let paths: Vec<Vec<&str>> = vec![vec!["a"], vec!["seg1", "seg2", "seg3"], vec![&long_seg]];
        let extras: Vec<Vec<(u32, Vec<u8>)>> = vec![vec![], vec![(15, vec![b'q'; 40])]];
        let radices = [if ctx.thorough() { NBUDGETS_ALL } else { NBUDGETS }, 3, 3, 2, 7, 4, 2];
        let n = product(&radices);
        ctx.family(
            rep,
            "uploads",
            "budget (same selection, relative to the request's non-payload overhead) x token {0,4,8} x path {a, 3 segments, one 60-byte segment} x extra {none, 40-byte Uri-Query} x client SZX 0..6 x body {half a block, 1 block+1, 3 blocks+1, 6 blocks} x application reply to the final block {empty, 2000 bytes}: every 2.31 / final reply measured, acknowledged size checked, the client's next block with that size measured",
            n,
            true,
            |i, rep| {
                let d = decode(i, &radices);
                let token = tokens[d[1] as usize];
                let path = &paths[d[2] as usize];
                let extra = &extras[d[3] as usize];
                let client = d[4] as u8;
                let ovh = request_bytes(0, 3, 1, token, path, extra, Some((0, true, client)), None, &[]).len();
                let budget = match budget_for(d[0], ovh) {
                    Some(b) => b,
                    None => {
                        rep.count("skipped-budget-outside-[overhead+28,1280]");
                        return;
                    }
                };
                let s = rb::size(client);
                let body_len = match d[5] {
                    0 => s / 2,
                    1 => s + 1,
                    2 => 3 * s + 1,
                    _ => 6 * s,
                };
                let case = || Json::obj().set("direction", "upload").set("budget", budget).set("request_overhead", ovh).set("client_szx", client).set("body_len", body_len).set("path_shape", d[2]).set("token_len", token.len()).set("extra_option", d[3]).set("large_reply_to_final_block", d[6] == 1);
                let mut local = Report::new();
                let r = mccore::guard(|| upload(budget, token, path, extra, client, body_len, d[6] == 1, &mut local));
                rep.transitions += local.transitions;
                rep.traces_validated += local.traces_validated;
                rep.state_set.extend(local.state_set);
                for (k, v) in local.hist {
                    rep.count_n(&k, v);
                }
                match r {
                    Err(pn) => rep.violation(viol("uploads", i, format!("MACHINERY-or-C10/harness-panic@{}", pn.site()), pn.message, case())),
                    Ok(Ok(class)) => {
                        rep.count(class);
                        rep.bucket(&(class, client, d[5], d[2], d[3], token.len(), ((budget - ovh) as f64).log2() as u32));
                    }
                    Ok(Err((sig, what))) => {
                        rep.count("violation");
                        rep.violation(viol("uploads", i, sig, what, case()));
                    }
                }
                if ctx.want_sample(i, n) {
                    rep.sample(Json::obj().set("family", "uploads").set("index", i).set("case", case()));
                }
            },
        );
    }
    // ---- uploads whose requests change shape (token, Uri-Query) between blocks / after an abandoned upload
    {
        let fat_extra: Vec<(u32, Vec<u8>)> = vec![(15, vec![b'q'; 30])];
        let mid_extra: Vec<(u32, Vec<u8>)> = vec![(15, vec![b'k'; 13])];
        let none: Vec<(u32, Vec<u8>)> = vec![];
        let fat_token: [u8; 8] = [1, 2, 3, 4, 5, 6, 7, 8];
        // (lean, fat) pairs: nothing vs token+query, nothing vs token only, 1-byte token vs 13-byte query
        let pairs: Vec<(Shape, Shape)> = vec![((&[], &none), (&fat_token, &fat_extra)), ((&[], &none), (&fat_token, &none)), ((&fat_token[..1], &none), (&fat_token[..1], &mid_extra))];
        let radices = [NBUDGETS, pairs.len() as u64, 7, 4, 7, 3];
        let n = product(&radices);
        ctx.family(
            rep,
            "uploads-changing-shape",
            "budget (same selection, relative to the larger request overhead) x (lean, fat) request shapes {no token / 8-byte token + 30-byte Uri-Query, no token / 8-byte token, 1-byte token / + 13-byte Uri-Query} x which blocks are fat {none, all, all but the first, only the first, odd, even, from the third} x abandoned predecessor on the same key {none, 1 lean block, 2 lean blocks, 1 fat block} x client SZX 0..6 x body {1 block+1, 3 blocks+1, 6 blocks}: every acknowledgement judged against the overhead of the request it answers",
            n,
            true,
            |i, rep| {
                let d = decode(i, &radices);
                let (lean, fat) = pairs[d[1] as usize];
                let client = d[4] as u8;
                let ovh = request_bytes(0, 3, 1, fat.0, &["a"], fat.1, Some((0, true, client)), None, &[]).len();
                let budget = match budget_for(d[0], ovh) {
                    Some(b) => b,
                    None => {
                        rep.count("skipped-budget-outside-[overhead+28,1280]");
                        return;
                    }
                };
                let s = rb::size(client);
                let body_len = match d[5] {
                    0 => s + 1,
                    1 => 3 * s + 1,
                    _ => 6 * s,
                };
                let case = || Json::obj().set("direction", "upload-changing-shape").set("budget", budget).set("fat_request_overhead", ovh).set("client_szx", client).set("body_len", body_len).set("shape_pair", d[1]).set("fat_block_pattern", d[2]).set("predecessor", d[3]);
                let mut local = Report::new();
                let r = mccore::guard(|| upload_shapes(budget, lean, fat, d[2] as u8, d[3] as u8, client, body_len, &mut local));
                rep.transitions += local.transitions;
                rep.traces_validated += local.traces_validated;
                rep.state_set.extend(local.state_set);
                match r {
                    Err(pn) => rep.violation(viol("uploads-changing-shape", i, format!("MACHINERY-or-C10/harness-panic@{}", pn.site()), pn.message, case())),
                    Ok(Ok(class)) => {
                        rep.count(class);
                        rep.bucket(&(class, client, d[5], d[2], d[3], d[1], ((budget - ovh) as f64).log2() as u32));
                    }
                    Ok(Err((sig, what))) => {
                        rep.count("violation");
                        rep.violation(viol("uploads-changing-shape", i, sig, what, case()));
                    }
                }
                if ctx.want_sample(i, n) {
                    rep.sample(Json::obj().set("family", "uploads-changing-shape").set("index", i).set("case", case()));
                }
            },
        );
    }
    rep.assume("overhead = encoded size of the message without its payload and marker, measured with the reference encoder; the domain is budget in [overhead+28, 1280] as the property states");
    rep.assume("clients never raise the block size above the one the server used; application replies carry no Block2 option of their own");
    rep.assume("random budgets named in the quantifier are replaced by every value in the stated bands");
}
