//! C12 — concurrent block transfers are isolated; replies belong to the current request.
//!
//! Exhaustive enumeration of *all merges* (message-level interleavings at the
//! serial `&mut self` handler) of 2-3 scripted transfers that differ in exactly
//! one of endpoint / method / path.  Oracle: every transfer's transcript equals
//! its solo transcript, and every reply echoes the message id and token of the
//! request it answers.

use crate::blockwise::*;
use mccore::{viol, Ctx, Json, Report};
use refmodel::codec::RefMsg;
use std::time::Duration;

const BUDGET: usize = 48; // 16-byte blocks on every script for token lengths 0..=8
const BUDGET_EARLY: usize = 70; // room for 32-byte blocks: only the client's Block2 0/0/16 keeps them at 16

#[derive(Clone, Debug, PartialEq, Eq, Hash)]
pub struct Key {
    pub ep: u32,
    pub method: u8,
    pub path: Vec<&'static str>,
}

#[derive(Clone, Copy, Debug, PartialEq)]
pub enum Kind {
    /// 5 exchanges: GET carrying Block2 0/0/16 (early negotiation of a size *smaller* than the server would pick
    /// at the larger budget these groups use), then Block2 1..4
    DownloadEarly,
    Upload,   // 4 exchanges: Block1 0,1,2 (more) + 3 (final)
    Download, // 5 exchanges: request + Block2 1..4
    Mixed,    // 5 exchanges: Block1 0 (more), 1 (final, response fragmented), Block2 1, 2, 3
}

impl Kind {
    fn len(&self) -> usize {
        match self {
            Kind::Upload => 4,
            _ => 5,
        }
    }
}

#[derive(Clone, Debug)]
pub struct Transfer {
    pub key: Key,
    pub kind: Kind,
    pub salt: u8,
}

fn upload_body(t: &Transfer) -> Vec<u8> {
    body(if t.kind == Kind::Upload { 56 } else { 24 }, t.salt)
}
fn download_body(t: &Transfer) -> Vec<u8> {
    body(if t.kind == Kind::Mixed { 60 } else { 72 }, t.salt.wrapping_add(0x80))
}

/// Fresh token per request, of varying length (0..=8 bytes), so that anything of the cache-populating
/// request leaking into a later reply - including its token *length* - shows.
fn token_of(t: &Transfer, step: usize, mid: u16) -> Vec<u8> {
    // the *length* depends on (transfer, step) only - so that a transfer sends byte-for-byte equally long requests
    // in its solo run and in every merge (the budget arithmetic sees the request length); the content is fresh
    let full = [0x90 | (t.salt & 0x0F), (mid >> 8) as u8, mid as u8, 0x11, 0x22, 0x33, 0x44, 0x55];
    let len = (step * 3 + (t.salt as usize >> 4)) % 9;
    full[..len].to_vec()
}

/// The k-th request of the transfer (fixed scripts: block size 16 throughout).
fn request_of(t: &Transfer, k: usize, mid: u16) -> Vec<u8> {
    let token = token_of(t, k, mid);
    let path: Vec<&str> = t.key.path.clone();
    match t.kind {
        Kind::Upload => {
            let b = upload_body(t);
            let more = k < 3;
            request_bytes(0, t.key.method, mid, &token, &path, &[], Some((k as u32, more, 0)), None, &b[k * 16..(k * 16 + 16).min(b.len())])
        }
        Kind::Download => request_bytes(0, t.key.method, mid, &token, &path, &[], None, if k == 0 { None } else { Some((k as u32, false, 0)) }, &[]),
        Kind::DownloadEarly => request_bytes(0, t.key.method, mid, &token, &path, &[], None, Some((k as u32, false, 0)), &[]),
        Kind::Mixed => {
            let b = upload_body(t);
            if k < 2 {
                request_bytes(0, t.key.method, mid, &token, &path, &[], Some((k as u32, k < 1, 0)), None, &b[k * 16..(k * 16 + 16).min(b.len())])
            } else {
                request_bytes(0, t.key.method, mid, &token, &path, &[], None, Some(((k - 1) as u32, false, 0)), &[])
            }
        }
    }
}

#[derive(Clone, Debug, PartialEq)]
struct Entry {
    code: u8,
    options: Vec<(u32, Vec<u8>)>,
    payload: Vec<u8>,
    app_saw: Option<Vec<u8>>,
}

/// Runs the interleaving `order` (transfer indices) and returns per-transfer transcripts.
fn run_order(ts: &[Transfer], order: &[usize], rep: Option<&mut Report>) -> Result<Vec<Vec<Entry>>, (String, String)> {
    run_events(ts, order, rep, false)
}

/// Groups with an early-negotiating download run at a budget where the server alone would pick 32-byte blocks.
fn budget_for(ts: &[Transfer]) -> usize {
    // long paths make the upload requests bigger: two bytes per segment beyond the third
    let extra: usize = ts.iter().map(|t| t.key.path.len().saturating_sub(3) * 2).max().unwrap_or(0);
    if ts.iter().any(|t| t.kind == Kind::DownloadEarly) {
        BUDGET_EARLY + extra
    } else {
        BUDGET + extra
    }
}

/// `overlapped`: a request that reaches the application stays pending (its response phase is a separate event), so
/// other transfers' requests can be begun in between - a server that processes requests concurrently.
fn run_events(ts: &[Transfer], order: &[usize], rep: Option<&mut Report>, overlapped: bool) -> Result<Vec<Vec<Entry>>, (String, String)> {
    let mut srv = Server::new(budget_for(ts), Duration::from_secs(3600));
    clock::reset();
    let table: Vec<(Key, Transfer)> = ts.iter().map(|t| (t.key.clone(), t.clone())).collect();
    let app = move |call: &AppCall| -> AppReply {
        let path: Vec<Vec<u8>> = call.request.options.iter().filter(|o| o.0 == 11).map(|o| o.1.clone()).collect();
        for (k, t) in &table {
            let kp: Vec<Vec<u8>> = k.path.iter().map(|s| s.as_bytes().to_vec()).collect();
            if k.ep == call.ep && k.method == call.request.code && kp == path {
                return match t.kind {
                    Kind::Upload => AppReply { code: 0x44, options: vec![(4, vec![t.salt])], payload: vec![] },
                    _ => AppReply { code: 0x45, options: vec![(4, vec![t.salt])], payload: download_body(t) },
                };
            }
        }
        AppReply { code: 0x84, options: vec![], payload: vec![] }
    };
    let mut pos = vec![0usize; ts.len()];
    let mut out: Vec<Vec<Entry>> = vec![Vec::new(); ts.len()];
    let mut pending: Vec<Option<(Box<Pending>, u16)>> = (0..ts.len()).map(|_| None).collect();
    let mut mid = 0x2000u16;
    let distinct_endpoints = {
        let mut eps: Vec<u32> = ts.iter().map(|t| t.key.ep).collect();
        eps.sort();
        eps.dedup();
        eps.len() == ts.len()
    };
    let mut rep = rep;
    // events in the given order, then whatever is still pending / not yet sent, transfer by transfer
    let mut events: Vec<usize> = order.to_vec();
    for ti in 0..ts.len() {
        if order.contains(&ti) {
            for _ in 0..2 * ts[ti].kind.len() {
                events.push(ti);
            }
        }
    }
    for &ti in &events {
        let t = &ts[ti];
        let x: Exchange;
        let this_mid: u16;
        let mut app_saw: Option<Vec<u8>> = None;
        if let Some((p, m)) = pending[ti].take() {
            // response phase of the pending request
            let reply = app(&p.call);
            app_saw = Some(p.call.request.payload.clone());
            this_mid = m;
            x = srv.finish(*p, reply);
        } else {
            if pos[ti] >= t.kind.len() {
                continue;
            }
            mid = mid.wrapping_add(1);
            // message ids are scoped to an endpoint: transfers of different endpoints count their own ids from the
            // same base (so concurrent requests of two endpoints carry the *same* id); transfers that share an
            // endpoint draw from one counter
            let mid = if distinct_endpoints { 0x2000u16 + 1 + pos[ti] as u16 } else { mid };
            this_mid = mid;
            let req = request_of(t, pos[ti], mid);
            pos[ti] += 1;
            match srv.begin(t.key.ep, &req) {
                Begun::Done(d) => x = d,
                Begun::NeedsApp(p) => {
                    if overlapped {
                        pending[ti] = Some((p, mid));
                        if let Some(r) = rep.as_deref_mut() {
                            r.visit(&srv.snapshot());
                        }
                        continue;
                    }
                    let reply = app(&p.call);
                    app_saw = Some(p.call.request.payload.clone());
                    x = srv.finish(*p, reply);
                }
            }
        }
        if let Some(r) = rep.as_deref_mut() {
            r.visit(&srv.snapshot());
        }
        if let Some((stage, pn)) = &x.panic {
            return Err((format!("C12/panic@{}", pn.site()), format!("{:?}: {}", stage, pn.message)));
        }
        let step = out[ti].len();
        let reply: RefMsg = match x.reply.as_deref().and_then(parse_reply) {
            Some(r) => r,
            None => return Err(("C12/no-reply".into(), format!("transfer {} step {} got no reply", ti, step))),
        };
        let token = token_of(t, step, this_mid);
        if reply.mid != this_mid || reply.token != token {
            return Err((
                "C12/reply-does-not-echo-current-request".into(),
                format!(
                    "transfer {} step {}: request mid {:#06x} token {:02x?}, reply mid {:#06x} token {:02x?}",
                    ti, step, this_mid, token, reply.mid, reply.token
                ),
            ));
        }
        out[ti].push(Entry { code: reply.code, options: reply.options.clone(), payload: reply.payload.clone(), app_saw });
    }
    Ok(out)
}

fn multinomial(counts: &[usize]) -> u64 {
    let mut n: u64 = 1;
    let mut total = 0u64;
    for &c in counts {
        for k in 1..=c as u64 {
            total += 1;
            n = n * total / k;
        }
    }
    n
}

/// Unranks merge number `idx` of sequences with the given remaining counts.
fn unrank(mut idx: u64, counts: &[usize]) -> Vec<usize> {
    let mut left = counts.to_vec();
    let total: usize = left.iter().sum();
    let mut out = Vec::with_capacity(total);
    for _ in 0..total {
        for t in 0..left.len() {
            if left[t] == 0 {
                continue;
            }
            left[t] -= 1;
            let c = multinomial(&left);
            if idx < c {
                out.push(t);
                break;
            }
            idx -= c;
            left[t] += 1;
        }
    }
    out
}

fn variants() -> Vec<(&'static str, Vec<Key>)> {
    let k = |ep, method, path: &[&'static str]| Key { ep, method, path: path.to_vec() };
    vec![
        ("endpoint", vec![k(1, 3, &["a", "b"]), k(2, 3, &["a", "b"]), k(3, 3, &["a", "b"])]),
        ("method", vec![k(1, 3, &["a", "b"]), k(1, 2, &["a", "b"]), k(1, 6, &["a", "b"])]),
        ("path-segmentation", vec![k(1, 3, &["a", "b"]), k(1, 3, &["a/b"]), k(1, 3, &["a", "b", ""])]),
        ("path-prefix", vec![k(1, 3, &["a"]), k(1, 3, &["a", "b"]), k(1, 3, &["a", "b", "c"])]),
        ("path-other", vec![k(1, 3, &["a"]), k(1, 3, &["b"]), k(1, 3, &["A"])]),
        ("path-empty", vec![k(1, 3, &[]), k(1, 3, &[""]), k(1, 3, &["", ""])]),
        ("path-long", vec![
            k(1, 3, &["p", "q", "r", "s", "t", "u", "v", "w", "x"]),
            k(1, 3, &["p", "q", "r", "s", "t", "u", "v", "w", "y"]),
            k(1, 3, &["p", "q", "r", "s", "t", "u", "v", "w"]),
        ]),
        ("path-same-concatenation", vec![k(1, 3, &["ab", "c"]), k(1, 3, &["a", "bc"]), k(1, 3, &["abc"])]),
        ("method-get-fetch", vec![k(1, 1, &["a", "b"]), k(1, 5, &["a", "b"]), k(1, 4, &["a", "b"])]),
    ]
}

pub fn run(ctx: &Ctx, rep: &mut Report) {
    let vars = variants();
    // groups: (name, kinds of the transfers)
    let mut groups: Vec<(String, Vec<Kind>)> = Vec::new();
    for a in [Kind::Upload, Kind::Download, Kind::Mixed] {
        for b in [Kind::Upload, Kind::Download, Kind::Mixed] {
            groups.push((format!("pair-{:?}-{:?}", a, b), vec![a, b]));
        }
    }
    groups.push(("triple-Upload-Upload-Upload".into(), vec![Kind::Upload; 3]));
    if ctx.thorough() {
        groups.push(("triple-Download-Download-Download".into(), vec![Kind::Download; 3]));
        groups.push(("triple-Mixed-Upload-Download".into(), vec![Kind::Mixed, Kind::Upload, Kind::Download]));
        groups.push(("triple-Mixed-Mixed-Mixed".into(), vec![Kind::Mixed; 3]));
    }
    // event-level (overlapped) interleavings: the response phase of a request that reached the application is its
    // own event, so another transfer's request can be begun while it is pending
    let mut ogroups: Vec<(String, Vec<Kind>, bool)> = groups.iter().map(|g| (g.0.clone(), g.1.clone(), false)).collect();
    for a in [Kind::Upload, Kind::Download, Kind::Mixed] {
        for b in [Kind::Upload, Kind::Download, Kind::Mixed] {
            ogroups.push((format!("overlapped-pair-{:?}-{:?}", a, b), vec![a, b], true));
        }
    }
    for (a, b) in [(Kind::DownloadEarly, Kind::DownloadEarly), (Kind::DownloadEarly, Kind::Upload), (Kind::Upload, Kind::DownloadEarly)] {
        ogroups.push((format!("pair-{:?}-{:?}", a, b), vec![a, b], false));
        ogroups.push((format!("overlapped-pair-{:?}-{:?}", a, b), vec![a, b], true));
    }
    if ctx.thorough() {
        ogroups.push(("overlapped-triple-Upload-Download-Mixed".into(), vec![Kind::Upload, Kind::Download, Kind::Mixed], true));
        ogroups.push(("overlapped-triple-DownloadEarly-DownloadEarly-Upload".into(), vec![Kind::DownloadEarly, Kind::DownloadEarly, Kind::Upload], true));
    }
    for (gname, kinds, overlapped) in &ogroups {
        let overlapped = *overlapped;
        let counts: Vec<usize> = kinds.iter().map(|k| k.len() + if overlapped { 1 } else { 0 }).collect();
        let merges = multinomial(&counts);
        // triples only for the variants where it matters most in the quick tier
        let use_vars: Vec<usize> = if kinds.len() == 3 && overlapped {
            vec![0, 2] // 5.7 M event-level merges per variant: endpoint and path-segmentation only
        } else if kinds.len() == 3 && ctx.quick() {
            vec![0, 1, 2, 3]
        } else {
            (0..vars.len()).collect()
        };
        let n = merges * use_vars.len() as u64;
        let fam = format!("merges-{}", gname);
        ctx.family(
            rep,
            &fam,
            &format!(
                "every merge ({} of them) of the scripted transfers {:?} (event counts {:?}; overlapped families split the application's turn off as its own event) x key-difference variants {:?}; budget {}",
                merges,
                kinds,
                counts,
                use_vars.iter().map(|v| vars[*v].0).collect::<Vec<_>>(),
                BUDGET
            ),
            n,
            true,
            |i, rep| {
                let vi = use_vars[(i / merges) as usize];
                let (vname, keys) = &vars[vi];
                let ts: Vec<Transfer> = kinds.iter().enumerate().map(|(j, k)| Transfer { key: keys[j].clone(), kind: *k, salt: 0x11 * (j as u8 + 1) }).collect();
                if *vname == "path-long" && kinds.iter().any(|k| matches!(k, Kind::Download | Kind::Mixed)) {
                    // these scripts rely on the server choosing 16-byte blocks at budget 48
                    rep.count("skipped-long-paths-only-with-upload-and-early-negotiation-scripts");
                    return;
                }
                let order = unrank(i % merges, &counts);
                let case = || Json::obj().set("variant", *vname).set("kinds", format!("{:?}", kinds)).set("keys", format!("{:?}", keys[..kinds.len()].to_vec())).set("order", order.iter().map(|x| *x as u64).collect::<Vec<_>>());
                // solo transcripts
                let mut solos = Vec::new();
                for (j, t) in ts.iter().enumerate() {
                    let solo_order = vec![j; t.kind.len()];
                    let _ = overlapped;
                    match run_order(&ts, &solo_order, None) {
                        Ok(o) => solos.push(o[j].clone()),
                        Err((sig, what)) => {
                            rep.violation(viol(&fam, i, sig, format!("solo run of transfer {}: {}", j, what), case()));
                            return;
                        }
                    }
                }
                let mut local = Report::new();
                let r = mccore::guard(|| run_events(&ts, &order, Some(&mut local), overlapped));
                rep.transitions += local.transitions;
                rep.traces_validated += local.traces_validated;
                rep.state_set.extend(local.state_set);
                match r {
                    Err(pn) => rep.violation(viol(&fam, i, format!("MACHINERY-or-C12/harness-panic@{}", pn.site()), pn.message, case())),
                    Ok(Err((sig, what))) => {
                        rep.count("violation");
                        rep.violation(viol(&fam, i, sig, what, case()));
                    }
                    Ok(Ok(got)) => {
                        for j in 0..ts.len() {
                            if got[j] != solos[j] {
                                let step = got[j].iter().zip(solos[j].iter()).position(|(a, b)| a != b).unwrap_or(0);
                                let (a, b) = (&got[j][step], &solos[j][step]);
                                let what = if a.code != b.code {
                                    format!("code {} vs solo {}", refmodel::registries::dotted(a.code), refmodel::registries::dotted(b.code))
                                } else if a.payload != b.payload {
                                    format!("reply payload of {} bytes differs from solo ({} bytes)", a.payload.len(), b.payload.len())
                                } else if a.app_saw != b.app_saw {
                                    format!("application saw {:?} bytes, solo {:?} bytes", a.app_saw.as_ref().map(|x| x.len()), b.app_saw.as_ref().map(|x| x.len()))
                                } else {
                                    format!("options {:?} vs solo {:?}", a.options, b.options)
                                };
                                rep.count("violation");
                                rep.violation(viol(
                                    &fam,
                                    i,
                                    format!("C12/transcript-differs-from-solo/{}", vname),
                                    format!("transfer {} step {}: {}", j, step, what),
                                    case(),
                                ));
                                return;
                            }
                        }
                        // solo transcripts must themselves be complete transfers (otherwise the comparison is vacuous)
                        for (j, t) in ts.iter().enumerate() {
                            let fin = solos[j].last().unwrap();
                            let ok = match t.kind {
                                Kind::Upload => fin.code == 0x44 && solos[j].iter().filter_map(|e| e.app_saw.as_ref()).next() == Some(&upload_body(t)),
                                _ => {
                                    let dl: Vec<u8> = solos[j].iter().filter(|e| e.code == 0x45).flat_map(|e| e.payload.clone()).collect();
                                    dl == download_body(t)
                                }
                            };
                            if !ok {
                                rep.violation(viol(&fam, i, "MACHINERY/solo-script-incomplete", format!("solo transcript of transfer {} is not a complete transfer", j), case()));
                                return;
                            }
                        }
                        rep.count("all-transcripts-equal-solo");
                        rep.bucket(&(gname.as_str(), *vname, order.iter().take(6).cloned().collect::<Vec<_>>()));
                    }
                }
                if ctx.want_sample(i, n) {
                    rep.sample(Json::obj().set("family", fam.as_str()).set("index", i).set("case", case()));
                }
            },
        );
    }
    rep.assume("interleavings are message-level merges at the serial (&mut self) handler; the crate has no threads or shared mutable state for a thread scheduler to intercept");
    rep.assume("scripts use fixed block numbers (block size 16); fresh message id and a fresh token of varying length (0..8 bytes) per request; transcripts compare code, options and payload, the id/token echo is checked separately");
}
