//! C11 — the block handler survives hostile traffic: no panic, bounded buffers, clean errors.

use crate::blockwise::*;
use mccore::bfs::{self, Step};
use mccore::{decode, product, viol, Ctx, Json, Report};
use refmodel::block as rb;
use refmodel::codec::{self, RefMsg};
use std::time::Duration;

#[derive(Clone, Debug, PartialEq)]
pub enum Blk {
    None,
    Junk,
    Val(u32, bool, u8),
}

#[derive(Clone, Debug)]
pub struct Template {
    pub mtype: u8,
    pub method: u8,
    pub bloat: usize,
    pub b1: Blk,
    pub b2: Blk,
    pub payload: usize,
    pub path: &'static str,
    pub ep: u32,
    /// values of a Size1 (60) and a Size2 (28) option, if any
    pub size1: Option<u32>,
    pub size2: Option<u32>,
}

impl Template {
    pub fn bytes(&self, mid: u16) -> Vec<u8> {
        let mut options: Vec<(u32, Vec<u8>)> = vec![(11, self.path.as_bytes().to_vec())];
        if self.bloat > 0 {
            // several Uri-Query options of at most 255 bytes each
            let mut left = self.bloat;
            while left > 0 {
                let l = left.min(250);
                options.push((15, vec![b'x'; l]));
                left -= l;
            }
        }
        match &self.b2 {
            Blk::None => {}
            Blk::Junk => options.push((23, vec![0xDE, 0xAD, 0xBE, 0xEF])),
            Blk::Val(n, m, s) => options.push((23, rb::enc(*n, *m, *s))),
        }
        match &self.b1 {
            Blk::None => {}
            Blk::Junk => options.push((27, vec![0xDE, 0xAD, 0xBE, 0xEF])),
            Blk::Val(n, m, s) => options.push((27, rb::enc(*n, *m, *s))),
        }
        if let Some(v) = self.size1 {
            options.push((60, refmodel::uint::enc(v as u128)));
        }
        if let Some(v) = self.size2 {
            options.push((28, refmodel::uint::enc(v as u128)));
        }
        options.sort_by_key(|o| o.0);
        let m = RefMsg {
            version: 1,
            mtype: self.mtype,
            token: vec![0x70, mid as u8],
            code: self.method,
            mid,
            options,
            payload: body(self.payload, 0x66),
        };
        codec::enc(&m).unwrap()
    }
    fn json(&self) -> Json {
        Json::obj()
            .set("type", self.mtype)
            .set("method", refmodel::registries::dotted(self.method))
            .set("option_bloat", self.bloat)
            .set("block1", format!("{:?}", self.b1))
            .set("block2", format!("{:?}", self.b2))
            .set("payload", self.payload)
            .set("path", self.path)
            .set("endpoint", self.ep)
            .set("size1", self.size1)
            .set("size2", self.size2)
    }
}

pub fn app_reply(kind: u64) -> AppReply {
    match kind {
        0 => AppReply { code: 0x44, options: vec![], payload: vec![] },
        1 => AppReply { code: 0x45, options: vec![], payload: body(10_000, 1) },
        2 => AppReply { code: 0x45, options: (0..6).map(|_| (8u16, vec![b'l'; 233])).collect(), payload: body(100, 2) },
        3 => AppReply { code: 0x45, options: vec![(23, rb::enc(3, true, 2))], payload: body(64, 3) },
        5 => AppReply { code: 0x45, options: vec![], payload: body(100, 5) },
        _ => AppReply { code: 0x45, options: vec![], payload: body(300, 4) },
    }
}

fn b1_values() -> Vec<Blk> {
    let mut v = vec![Blk::None, Blk::Junk];
    for num in [0u32, 1, 2, 100, 4095] {
        for more in [true, false] {
            for szx in [0u8, 6, 7] {
                v.push(Blk::Val(num, more, szx));
            }
        }
    }
    v.push(Blk::Val(65535, true, 0));
    v.push(Blk::Val(65535, false, 7));
    v
}
fn b2_values() -> Vec<Blk> {
    let mut v = vec![Blk::None, Blk::Junk];
    for num in [0u32, 1, 100] {
        for szx in [0u8, 7] {
            v.push(Blk::Val(num, false, szx));
        }
    }
    // block numbers just below / at / just beyond the end of the application bodies (100 and 300 bytes at
    // 16-byte blocks: 7 and 19 blocks; 100 bytes at 64: 2 blocks; 10000 bytes at 1024: 10 blocks)
    for (num, szx) in [(6u32, 0u8), (7, 0), (8, 0), (18, 0), (19, 0), (20, 0), (2, 2), (3, 2), (9, 6), (10, 6), (11, 6)] {
        v.push(Blk::Val(num, false, szx));
    }
    // the largest block numbers the 16-bit field holds
    for (num, szx) in [(65534u32, 0u8), (65535, 0), (65535, 7)] {
        v.push(Blk::Val(num, false, szx));
    }
    v
}

fn budgets_full() -> Vec<usize> {
    let mut v: Vec<usize> = (0..=64).collect();
    v.extend([100, 500, 1152, 1280, 2000, 5000]);
    let mut b = 65;
    while b <= 5000 {
        v.push(b);
        b += 97;
    }
    v.sort();
    v.dedup();
    v
}

/// Key of a request as the handler forms it: (method, path, endpoint).
type Snap = Vec<(u8, Vec<String>, Option<u32>, Option<(u16, bool, u8)>, Option<Vec<u8>>, Option<Vec<u8>>)>;

fn buffer_of(s: &Snap, t: &Template) -> Option<Vec<u8>> {
    let path: Vec<String> = vec![t.path.to_string()];
    s.iter().find(|e| e.0 == t.method && e.1 == path && e.2 == Some(t.ep)).and_then(|e| e.5.clone())
}

/// One hostile exchange + the C11 oracle. `before`/`after` are hook snapshots.
pub fn judge(t: &Template, x: &Exchange, before: &Snap, after: &Snap) -> Result<&'static str, (String, String)> {
    judge_with(t, x, before, after, HOOKS)
}

/// `buffer_known`: the length of the upload buffer before the request is known (hook snapshot, or a fresh server).
pub fn judge_with(t: &Template, x: &Exchange, before: &Snap, after: &Snap, buffer_known: bool) -> Result<&'static str, (String, String)> {
    if let Some((stage, pn)) = &x.panic {
        return Err((format!("C11/panic@{}", pn.site()), format!("{:?} panicked: {}", stage, pn.message)));
    }
    if x.request_rejected_by_parser {
        return Err(("MACHINERY/request-not-parseable".into(), "generated request does not parse".into()));
    }
    let mut class = "served";
    if let Some((stage, code, msg, applied)) = &x.error {
        class = "clean-error";
        if !x.no_response_prepared {
            match code {
                Some(c) if *c >= 0x80 && *applied => {}
                _ => {
                    return Err((
                        "C11/error-not-renderable".into(),
                        format!("{:?} returned an error with code {:?} ({:?}); apply_from_error = {}", stage, code.map(refmodel::registries::dotted), msg, applied),
                    ))
                }
            }
            if x.reply.is_none() {
                return Err(("C11/error-reply-not-encodable".into(), format!("the error reply for {:?} cannot be encoded", msg)));
            }
        } else {
            class = "error-without-prepared-response";
        }
    } else if !x.no_response_prepared && x.reply.is_none() {
        return Err(("C11/reply-not-encodable".into(), "the prepared reply cannot be encoded".into()));
    }
    // bounded growth of the request's own buffer
    let lb = buffer_of(before, t).map(|b| b.len()).unwrap_or(0);
    let la = buffer_of(after, t).map(|b| b.len()).unwrap_or(0);
    // a block whose offset lies more than 16 KiB beyond the buffered data needs a larger jump:
    // it must be rejected and leave the buffered data unchanged
    if let Blk::Val(num, _, szx) = &t.b1 {
        let offset = *num as usize * rb::size(*szx);
        if buffer_known && offset > lb + 16 * 1024 {
            let rejected = matches!(&x.error, Some((Stage::InterceptRequest, _, _, _)));
            if !rejected {
                return Err((
                    "C11/oversize-jump-not-rejected".into(),
                    format!("block at offset {} with {} bytes buffered was not rejected", offset, lb),
                ));
            }
            if buffer_of(before, t).unwrap_or_default() != buffer_of(after, t).unwrap_or_default() {
                return Err(("C11/rejected-block-changed-buffer".into(), format!("the block at offset {} was rejected but the upload buffer changed ({} -> {} bytes)", offset, lb, la)));
            }
        }
    }
    if la > lb + 16 * 1024 + t.payload {
        return Err((
            "C11/buffer-growth-unbounded".into(),
            format!("one request made the upload buffer grow from {} to {} bytes (payload {} bytes)", lb, la, t.payload),
        ));
    }
    // other keys' buffers unchanged
    let path: Vec<String> = vec![t.path.to_string()];
    for e in before {
        let same_key = e.0 == t.method && e.1 == path && e.2 == Some(t.ep);
        if !same_key {
            // (an implementation may drop an entry that holds nothing: a missing entry is "no buffered data")
            let now = after.iter().find(|a| a.0 == e.0 && a.1 == e.1 && a.2 == e.2);
            if now.and_then(|a| a.5.clone()).unwrap_or_default() != e.5.clone().unwrap_or_default() {
                return Err(("C11/other-resource-buffer-changed".into(), format!("buffer of another resource ({:?} {:?}) changed", e.0, e.1)));
            }
        }
    }
    Ok(class)
}

fn depth1(ctx: &Ctx, rep: &mut Report) {
    let b1s = b1_values();
    let b2s = b2_values();
    // (type, method, bloat, payload) combinations: full for CON, reduced for the others
    let mut shapes: Vec<(u8, u8, usize, usize)> = Vec::new();
    for method in [1u8, 3] {
        for bloat in [0usize, 40, 1400] {
            for payload in [0usize, 16, 1200] {
                shapes.push((0, method, bloat, payload));
            }
        }
    }
    for t in 1..=3u8 {
        for method in [1u8, 3] {
            for payload in [0usize, 16] {
                shapes.push((t, method, 0, payload));
            }
        }
    }
    let budgets = budgets_full();
    let radices = [shapes.len() as u64, b1s.len() as u64, b2s.len() as u64, budgets.len() as u64, 6];
    let n = product(&radices);
    ctx.family(
        rep,
        "depth1-full-product",
        "single hostile request: type {CON,NON,ACK,RST} x method {GET,PUT} x option bloat {0,40,1400} x Block1 {none, junk, num {0,1,2,100,4095} x more x SZX {0,6,7}, num 65535} x Block2 {none, junk, num {0,1,100} x SZX {0,7}, 11 values at the end of the application bodies, num 65534/65535} x payload {0,16,1200} (7680 templates) x every budget 0..=64, {100,500,1152,1280,2000,5000}, 65..5000 step 97 x application reply {empty, 10000-byte body, 100 bytes + 1400 bytes of options, own Block2, 300-byte body, 100-byte body}",
        n,
        true,
        |i, rep| {
            let d = decode(i, &radices);
            let (mtype, method, bloat, payload) = shapes[d[0] as usize];
            let t = Template { mtype, method, bloat, b1: b1s[d[1] as usize].clone(), b2: b2s[d[2] as usize].clone(), payload, path: "h", ep: 1, size1: None, size2: None };
            let budget = budgets[d[3] as usize];
            let kind = d[4];
            let mut srv = Server::new(budget, Duration::from_secs(3600));
            let before = srv.snapshot();
            let x = srv.exchange(1, &t.bytes(40_000), &|_c| app_reply(kind));
            let after = srv.snapshot();
            rep.visit(&after);
            // (a fresh server: the upload buffer is known to be empty even when no hook shows it)
            match judge_with(&t, &x, &before, &after, true) {
                Ok(class) => {
                    rep.count(class);
                    rep.bucket(&(class, mtype, matches!(t.b1, Blk::None), matches!(t.b2, Blk::None), bloat, payload, budget.min(70), kind));
                }
                Err((sig, what)) => {
                    rep.count("violation");
                    rep.violation(viol("depth1-full-product", i, sig, what, t.json().set("budget", budget).set("app_reply", kind)));
                }
            }
            if ctx.want_sample(i, n) {
                rep.sample(Json::obj().set("family", "depth1-full-product").set("index", i).set("request", t.json()).set("budget", budget).set("app_reply", kind));
            }
        },
    );
}

fn covering_templates(thorough: bool) -> Vec<Template> {
    let b1s: Vec<Blk> = if thorough {
        b1_values()
    } else {
        vec![Blk::None, Blk::Junk, Blk::Val(0, true, 0), Blk::Val(1, true, 0), Blk::Val(2, false, 0), Blk::Val(100, true, 6), Blk::Val(4095, false, 7)]
    };
    let b2s: Vec<Blk> = if thorough { b2_values() } else { vec![Blk::None, Blk::Junk, Blk::Val(0, false, 0), Blk::Val(1, false, 7)] };
    let mut v = Vec::new();
    for (i, b1) in b1s.iter().enumerate() {
        for (j, b2) in b2s.iter().enumerate() {
            for payload in [0usize, 16] {
                v.push(Template {
                    mtype: if (i + j) % 5 == 4 { 1 } else { 0 },
                    method: 3,
                    bloat: if (i * 3 + j) % 7 == 6 { 40 } else { 0 },
                    b1: b1.clone(),
                    b2: b2.clone(),
                    payload,
                    path: "h",
                    ep: 1,
                    size1: None,
                    size2: None,
                });
            }
        }
    }
    v
}

fn depth2(ctx: &Ctx, rep: &mut Report) {
    let ts = covering_templates(ctx.thorough());
    let mut budgets: Vec<usize> = (0..=64).collect();
    budgets.extend([1152, 5000]);
    let kinds: [u64; 2] = [0, 4];
    let radices = [ts.len() as u64, ts.len() as u64, budgets.len() as u64, 2];
    let n = product(&radices);
    ctx.family(
        rep,
        "depth2-covering-pairs",
        &format!("every ordered pair of {} covering templates (every Block1 value x every Block2 value of the {} set x payload {{0,16}}, same resource) x every budget 0..=64, 1152, 5000 x application reply {{empty, 300-byte body}}", ts.len(), if ctx.thorough() { "full" } else { "reduced" }),
        n,
        true,
        |i, rep| {
            let d = decode(i, &radices);
            let budget = budgets[d[2] as usize];
            let kind = kinds[d[3] as usize];
            let mut srv = Server::new(budget, Duration::from_secs(3600));
            for (k, ti) in [d[0], d[1]].iter().enumerate() {
                let t = &ts[*ti as usize];
                let before = srv.snapshot();
                let x = srv.exchange(1, &t.bytes(41_000 + k as u16), &|_c| app_reply(kind));
                let after = srv.snapshot();
                rep.visit(&after);
                if let Err((sig, what)) = judge(t, &x, &before, &after) {
                    rep.count("violation");
                    rep.violation(viol(
                        "depth2-covering-pairs",
                        i,
                        sig,
                        format!("request {} of 2: {}", k + 1, what),
                        Json::obj().set("first", ts[d[0] as usize].json()).set("second", ts[d[1] as usize].json()).set("budget", budget).set("app_reply", kind),
                    ));
                    return;
                }
            }
            rep.count("pair-survived");
            rep.bucket(&(d[0], d[1], budget.min(70) / 8, kind));
        },
    );
}

fn bfs_templates() -> Vec<Template> {
    let t = |b1: Blk, b2: Blk, payload: usize, method: u8| Template { mtype: 0, method, bloat: 0, b1, b2, payload, path: "k", ep: 1, size1: None, size2: None };
    vec![
        t(Blk::Val(0, true, 0), Blk::None, 16, 3),
        t(Blk::Val(1, true, 0), Blk::None, 16, 3),
        t(Blk::Val(2, false, 0), Blk::None, 8, 3),
        t(Blk::Val(1, false, 0), Blk::None, 8, 3),
        t(Blk::Val(0, false, 0), Blk::None, 16, 3),
        t(Blk::Val(100, true, 0), Blk::None, 16, 3),
        t(Blk::Val(4095, true, 6), Blk::None, 16, 3),
        t(Blk::Val(15, true, 6), Blk::None, 1024, 3),
        t(Blk::None, Blk::Val(0, false, 0), 0, 3),
        t(Blk::None, Blk::Val(1, false, 0), 0, 3),
        t(Blk::None, Blk::Val(18, false, 0), 0, 3),
        t(Blk::None, Blk::Val(19, false, 0), 0, 3),
        t(Blk::None, Blk::None, 0, 3),
        t(Blk::None, Blk::None, 1200, 3),
        // another resource (method differs): its buffer must never change when "k"/PUT is addressed
        t(Blk::Val(0, true, 0), Blk::None, 16, 2),
        t(Blk::Val(1, false, 0), Blk::None, 4, 2),
    ]
}

/// Histories without state merging: one request repeated r times, then every ordered pair of requests, judged after every
/// exchange. The searches below merge states by the hook snapshot; additional private state that only repetition moves
/// (a byte counter, say) is invisible to that key, not to this family.
fn repeat_then_probe(ctx: &Ctx, rep: &mut Report) {
    let mut ts = bfs_templates();
    let big = |num: u32, more: bool| Template { mtype: 0, method: 3, bloat: 0, b1: Blk::Val(num, more, 6), b2: Blk::None, payload: 1024, path: "k", ep: 1, size1: None, size2: None };
    ts.extend([big(0, true), big(1, true), big(17, true), big(18, true), big(40, true), big(18, false)]);
    let reps: [usize; 5] = [1, 2, 3, 17, 40];
    let budgets: [usize; 2] = [64, 1152];
    let k = ts.len() as u64;
    let radices = [budgets.len() as u64, k, reps.len() as u64, k, k];
    let n = product(&radices);
    let fam = "repeat-then-probe";
    ctx.family(
        rep,
        fam,
        &format!("no state merging: budget {{64,1152}} x one of {} requests (the search alphabet + 1024-byte blocks 0,1,17,18,40) repeated {{1,2,3,17,40}} times x every ordered pair of requests; every exchange judged (clean errors, growth bound, oversize jump rejected and buffer unchanged)", k),
        n,
        true,
        |i, rep| {
            let d = decode(i, &radices);
            let budget = budgets[d[0] as usize];
            let r = reps[d[2] as usize];
            if r > 3 && d[4] % 2 != 0 {
                rep.count("skipped-long-repetition-thinned-probes");
                return;
            }
            let mut seq: Vec<usize> = vec![d[1] as usize; r];
            seq.push(d[3] as usize);
            seq.push(d[4] as usize);
            let mut srv = Server::new(budget, Duration::from_secs(3600));
            for (idx, a) in seq.iter().enumerate() {
                let t = &ts[*a];
                let before = srv.snapshot();
                let x = srv.exchange(t.ep, &t.bytes(42_000), &|_c| app_reply(0));
                let after = srv.snapshot();
                if let Err((sig, what)) = judge(t, &x, &before, &after) {
                    rep.violation(viol(fam, i, sig, format!("exchange {} of the history: {}", idx, what), Json::obj().set("budget", budget).set("repeated", ts[d[1] as usize].json()).set("times", r).set("then", ts[d[3] as usize].json()).set("and_then", ts[d[4] as usize].json())));
                    return;
                }
            }
            rep.count("history-served");
            rep.bucket(&(budget, d[1], r));
        },
    );
}

fn deep(ctx: &Ctx, rep: &mut Report) {
    let ts = bfs_templates();
    let kinds: [u64; 2] = [0, 4];
    let nacts = ts.len() * kinds.len();
    let depth = if ctx.thorough() && HOOKS { 5 } else { 3 }; // without hooks there is no state merging: depth 3 only
    for budget in [21usize, 32, 64, 1152] {
        let name = format!("bfs-colliding-requests-budget{}", budget);
        let st = bfs::run(
            ctx,
            rep,
            bfs::Spec {
                name: &name,
                description: &format!(
                    "BFS over sequences of {} request templates that collide on one cache key (+2 on a second key) x application reply {{empty, 300 bytes}}, budget {}, depth {}; dedup on the hook snapshot (per key: last Block2, cached response, upload buffer)",
                    ts.len(),
                    budget,
                    depth
                ),
                nacts,
                max_depth: depth,
                fresh: &|| (Server::new(budget, Duration::from_secs(3600)), 0u16),
                step: &|s: &mut (Server, u16), a: usize, _check: bool| {
                    let t = &ts[a / kinds.len()];
                    let kind = kinds[a % kinds.len()];
                    let before = s.0.snapshot();
                    // constant message id/token: a cached response embeds them, and the key must not depend on history length
                    let x = s.0.exchange(t.ep, &t.bytes(42_000), &|_c| app_reply(kind));
                    let after = s.0.snapshot();
                    match judge(t, &x, &before, &after) {
                        Ok(_) => Step::Ok,
                        Err((sig, what)) => Step::Violated(sig, what, Json::obj().set("budget", budget).set("request", t.json()).set("app_reply", kind)),
                    }
                },
                key: &|s: &(Server, u16)| (s.0.snapshot(), if HOOKS { 0 } else { s.0.trace }),
                project: None,
                label: &|a| format!("{:?}/{:?}/payload{}/method{} reply{}", ts[a / 2].b1, ts[a / 2].b2, ts[a / 2].payload, ts[a / 2].method, kinds[a % 2]),
            },
        );
        rep.note(&format!("{}_states", name), st.states);
        rep.note(&format!("{}_closed", name), st.closed);
    }
}

/// A large buffer built by in-order blocks, then one block that jumps ahead: the jump bound must hold
/// whatever the buffer's length or spare capacity is.
fn jump_after_large_buffer(ctx: &Ctx, rep: &mut Report) {
    let prior: [usize; 7] = [0, 1, 8, 16, 17, 20, 33];
    let jumps: [usize; 8] = [0, 1, 15 * 1024, 16 * 1024 - 2048, 16 * 1024, 16 * 1024 + 2048, 28 * 1024, 60 * 1024];
    let deliveries: [usize; 4] = [1, 2, 3, 20];
    let radices = [2u64, prior.len() as u64, jumps.len() as u64, 2, 2, deliveries.len() as u64];
    let n = product(&radices);
    ctx.family(
        rep,
        "jump-after-large-buffer",
        "k in {0,1,8,16,17,20,33} in-order blocks of 1024/2048 bytes, each delivered {1,2,3,20} times, then one block whose offset lies {0, 1 block, 15K, 14K, 16K, 18K, 28K, 60K} beyond the buffered data x more flag x payload {1 byte, full block}; budget 5000",
        n,
        true,
        |i, rep| {
            let d = decode(i, &radices);
            let szx: u8 = if d[0] == 0 { 6 } else { 7 };
            let bs = rb::size(szx);
            let k = prior[d[1] as usize];
            let jump_blocks = jumps[d[2] as usize] / bs;
            let more = d[3] == 1;
            let plen = if d[4] == 0 { 1 } else { bs };
            let mut srv = Server::new(5000, Duration::from_secs(3600));
            let mk = |num: u32, more: bool, len: usize| Template { mtype: 0, method: 3, bloat: 0, b1: Blk::Val(num, more, szx), b2: Blk::None, payload: len, path: "big", ep: 1, size1: None, size2: None };
            let reps = deliveries[d[5] as usize];
            for jj in 0..k * reps {
                let j = jj / reps;
                let t = mk(j as u32, true, bs);
                let before = srv.snapshot();
                let x = srv.exchange(1, &t.bytes(43_000), &|_c| app_reply(0));
                let after = srv.snapshot();
                rep.visit(&(j, szx, "fill"));
                if let Err((sig, what)) = judge(&t, &x, &before, &after) {
                    rep.violation(viol("jump-after-large-buffer", i, sig, format!("in-order block {}: {}", j, what), t.json()));
                    return;
                }
            }
            let t = mk((k + jump_blocks) as u32, more, plen);
            let before = srv.snapshot();
            let x = srv.exchange(1, &t.bytes(43_001), &|_c| app_reply(0));
            let after = srv.snapshot();
            rep.visit(&(k, szx, jump_blocks, more, plen));
            match judge(&t, &x, &before, &after) {
                Ok(class) => {
                    rep.count(class);
                    rep.bucket(&("jump", szx, k, jump_blocks, more, plen == 1, reps, class));
                }
                Err((sig, what)) => {
                    rep.count("violation");
                    rep.violation(viol(
                        "jump-after-large-buffer",
                        i,
                        sig,
                        format!("after {} in-order blocks of {} bytes: {}", k, bs, what),
                        t.json().set("prior_blocks", k).set("block_size", bs).set("deliveries_per_prior_block", reps),
                    ));
                }
            }
        },
    );
}

/// Size1 / Size2 options announce a size; they must not make the handler reserve or accept more.
fn size_options(ctx: &Ctx, rep: &mut Report) {
    let b1s = [Blk::None, Blk::Val(0, true, 6), Blk::Val(1, true, 6), Blk::Val(0, false, 6), Blk::Val(3, false, 2)];
    let sizes: [Option<u32>; 6] = [None, Some(0), Some(1000), Some(8 << 20), Some(64 << 20), Some(17_000)]; // (no larger: a broken tree must not exhaust the machine)
    let budgets = [64usize, 1152, 5000];
    let radices = [b1s.len() as u64, sizes.len() as u64, sizes.len() as u64, budgets.len() as u64, 2, 2];
    let n = product(&radices);
    ctx.family(
        rep,
        "size-options",
        "PUT with Block1 {none, 0/more/1024, 1/more/1024, 0/last/1024, 3/last/64} x Size1 {none,0,1000,17000,8 MiB,64 MiB} x Size2 {same} x budget {64,1152,5000} x payload {16,1024}, as a first request and after a first block: buffer growth stays bounded",
        n,
        true,
        |i, rep| {
            let d = decode(i, &radices);
            let t = Template { mtype: 0, method: 3, bloat: 0, b1: b1s[d[0] as usize].clone(), b2: Blk::None, payload: if d[4] == 1 { 1024 } else { 16 }, path: "sz", ep: 1, size1: sizes[d[1] as usize], size2: sizes[d[2] as usize] };
            let mut srv = Server::new(budgets[d[3] as usize], Duration::from_secs(3600));
            if d[5] == 1 {
                let first = Template { b1: Blk::Val(0, true, 6), payload: 1024, size1: None, size2: None, ..t.clone() };
                srv.exchange(1, &first.bytes(44_000), &|_c| app_reply(0));
            }
            let before = srv.snapshot();
            let x = srv.exchange(1, &t.bytes(44_001), &|_c| app_reply(4));
            let after = srv.snapshot();
            rep.visit(&after);
            match judge(&t, &x, &before, &after) {
                Ok(class) => {
                    rep.count(class);
                    rep.bucket(&("size", d[0], d[1], d[2], d[3], class));
                }
                Err((sig, what)) => {
                    rep.count("violation");
                    rep.violation(viol("size-options", i, sig, what, t.json().set("budget", budgets[d[3] as usize]).set("after_a_first_block", d[5] == 1)));
                }
            }
        },
    );
}

pub fn run(ctx: &Ctx, rep: &mut Report) {
    depth1(ctx, rep);
    size_options(ctx, rep);
    jump_after_large_buffer(ctx, rep);
    depth2(ctx, rep);
    repeat_then_probe(ctx, rep);
    deep(ctx, rep);
    rep.assume("requests are built with the reference encoder and are parseable; the application never panics; replies are encoded with the unlimited encoder (the budget is C10's concern)");
    rep.assume("buffer lengths are read through the cfg(coap_lite_verif) snapshot hook; 'rejected' = intercept_request returned Err");
}
