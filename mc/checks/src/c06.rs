//! C06 — typed option values: minimal big-endian uint form, round-trip, text options.

use coap_lite::option_value::{OptionValueString, OptionValueU16, OptionValueU32, OptionValueU64, OptionValueU8};
use coap_lite::{CoapOption, Packet};
use mccore::{decode, guard, hex, product, viol, Ctx, Json, Report};
use refmodel::uint;
use std::collections::LinkedList;
use std::convert::TryFrom;

fn enc_w(width: usize, v: u64) -> Result<Vec<u8>, mccore::Panicked> {
    guard(|| match width {
        1 => Vec::from(OptionValueU8(v as u8)),
        2 => Vec::from(OptionValueU16(v as u16)),
        4 => Vec::from(OptionValueU32(v as u32)),
        _ => Vec::from(OptionValueU64(v)),
    })
}

fn dec_w(width: usize, b: &[u8]) -> Result<Option<u64>, mccore::Panicked> {
    let b = b.to_vec();
    guard(|| match width {
        1 => OptionValueU8::try_from(b).ok().map(|x| x.0 as u64),
        2 => OptionValueU16::try_from(b).ok().map(|x| x.0 as u64),
        4 => OptionValueU32::try_from(b).ok().map(|x| x.0 as u64),
        _ => OptionValueU64::try_from(b).ok().map(|x| x.0),
    })
}

fn check_value(fam: &str, i: u64, width: usize, v: u64, rep: &mut Report) {
    let case = || Json::obj().set("width_bytes", width).set("value", v);
    if i % 9973 == 1234 && width == 8 {
        rep.sample(Json::obj().set("family", fam).set("index", i).set("case", case()).set("encoding", hex(&uint::enc(v as u128))));
    }
    let expect = uint::enc(v as u128);
    match enc_w(width, v) {
        Err(pn) => rep.violation(viol(fam, i, format!("C06/panic@{}", pn.site()), pn.message, case())),
        Ok(got) => {
            if got != expect {
                rep.violation(viol(
                    fam,
                    i,
                    "C06/encoding-not-minimal-big-endian",
                    format!("u{} {} encodes to {} expected {}", width * 8, v, hex(&got), hex(&expect)),
                    case(),
                ));
                return;
            }
            match dec_w(width, &got) {
                Ok(Some(back)) if back == v => {
                    rep.count("uint-roundtrip-ok");
                    rep.bucket(&(width, expect.len()));
                }
                other => rep.violation(viol(
                    fam,
                    i,
                    "C06/uint-roundtrip",
                    format!("u{} {} -> {} -> {:?}", width * 8, v, hex(&got), other),
                    case(),
                )),
            }
        }
    }
}

fn check_decode(fam: &str, i: u64, width: usize, b: &[u8], rep: &mut Report) {
    let case = || Json::obj().set("width_bytes", width).set("bytes", hex(b));
    let expect = uint::dec(b, width).map(|v| v as u64);
    match dec_w(width, b) {
        Err(pn) => rep.violation(viol(fam, i, format!("C06/panic@{}", pn.site()), pn.message, case())),
        Ok(got) => {
            if got != expect {
                rep.violation(viol(
                    fam,
                    i,
                    "C06/decode-mismatch",
                    format!("u{} from {} gives {:?}, expected {:?}", width * 8, hex(b), got, expect),
                    case(),
                ));
            } else {
                rep.count(if got.is_some() { "decoded" } else { "over-long-rejected" });
                rep.bucket(&(width, b.len(), got.is_some(), b.first().map(|x| *x == 0)));
            }
        }
    }
}

const WIDTHS: [usize; 4] = [1, 2, 4, 8];

/// Symbols for the string sweep: ASCII, NUL, 2-, 3- and 4-byte scalars.
const SYMS: [&str; 5] = ["a", "\0", "é", "€", "😁"];

pub fn run(ctx: &Ctx, rep: &mut Report) {
    // ---- encode: every u8, every u16
    ctx.family(rep, "enc-u8-u16", "every u8 as U8/U16/U32/U64 and every u16 as U16/U32/U64", 256 * 4 + 65536 * 3, true, |i, rep| {
        if i < 1024 {
            check_value("enc-u8-u16", i, WIDTHS[(i / 256) as usize], i % 256, rep);
        } else {
            let j = i - 1024;
            check_value("enc-u8-u16", i, WIDTHS[1 + (j / 65536) as usize], j % 65536, rep);
        }
    });
    // ---- encode: two adjacent significant bytes at every byte position for u32/u64
    {
        let radices = [65536u64, 7];
        let n = product(&radices);
        ctx.family(
            rep,
            "enc-windows",
            "v << 8k for every 16-bit v and every byte position k (U64, and U32 where it fits): all values with at most two adjacent significant bytes",
            n,
            true,
            |i, rep| {
                let d = decode(i, &radices);
                let v = d[0] << (8 * d[1]);
                check_value("enc-windows", i, 8, v, rep);
                if v <= u32::MAX as u64 {
                    check_value("enc-windows", i, 4, v, rep);
                }
            },
        );
    }
    // ---- thorough, configuration oc only: every 32-bit value at width 4 (the 32-bit space exhaustively)
    if ctx.thorough() && ctx.config == "oc" {
        ctx.family(rep, "enc-all-u32", "every u32 value as U32: minimal big-endian encoding and round-trip (the whole 32-bit space)", 1u64 << 32, true, |i, rep| {
            let v = i as u32;
            let be = v.to_be_bytes();
            let skip = (v.leading_zeros() / 8) as usize;
            let expect = &be[skip.min(4)..];
            let got: Vec<u8> = OptionValueU32(v).into();
            let ok = got == expect && OptionValueU32::try_from(got).map(|x| x.0) == Ok(v);
            if !ok {
                let got: Vec<u8> = OptionValueU32(v).into();
                rep.violation(viol("enc-all-u32", i, "C06/encoding-not-minimal-big-endian", format!("u32 {} encodes to {}, expected {}", v, hex(&got), hex(expect)), Json::obj().set("value", v)));
            } else if v & 0xFFFFF == 0 {
                rep.count_n("uint-roundtrip-ok", 1 << 20);
                rep.bucket(&(4usize, expect.len()));
            }
        });
    }
    // ---- encode: every u64 whose eight bytes are each one of {00, 01, 80, FF} (sparse and dense byte patterns)
    {
        let n = 65536u64;
        ctx.family(rep, "enc-byte-patterns", "every u64 whose 8 bytes are each one of {0x00,0x01,0x80,0xFF} (4^8 values), as U64 and - where it fits - as U32", n, true, |i, rep| {
            let pal = [0x00u64, 0x01, 0x80, 0xFF];
            let mut v = 0u64;
            for k in 0..8 {
                v = (v << 8) | pal[((i >> (2 * k)) & 3) as usize];
            }
            check_value("enc-byte-patterns", i, 8, v, rep);
            if v <= u32::MAX as u64 {
                check_value("enc-byte-patterns", i, 4, v, rep);
            }
        });
    }
    // ---- encode: powers of two and 256^k neighbours, MAX
    {
        let mut vals: Vec<u64> = vec![0, u64::MAX, u32::MAX as u64, u32::MAX as u64 + 1];
        for k in 0..64 {
            let p = 1u64 << k;
            vals.extend([p, p.wrapping_sub(1), p.wrapping_add(1)]);
        }
        vals.sort();
        vals.dedup();
        let n = vals.len() as u64;
        ctx.family(rep, "enc-powers", "2^k, 2^k-1, 2^k+1 for k=0..63, u32::MAX, u64::MAX", n, true, |i, rep| {
            let v = vals[i as usize];
            check_value("enc-powers", i, 8, v, rep);
            if v <= u32::MAX as u64 {
                check_value("enc-powers", i, 4, v, rep);
            }
        });
    }
    // ---- decode: every byte string of length <= 2 (quick) / <= 3 (thorough), all widths
    {
        let maxlen = if ctx.thorough() { 3 } else { 2 };
        let n = mccore::strings_upto_count(256, maxlen);
        ctx.family(rep, "dec-short-strings", &format!("every byte string of length 0..={} decoded as U8, U16, U32, U64", maxlen), n, true, |i, rep| {
            let s: Vec<u8> = mccore::string_at(i, 256, maxlen).iter().map(|x| *x as u8).collect();
            for w in WIDTHS {
                check_decode("dec-short-strings", i, w, &s, rep);
            }
        });
    }
    // ---- decode: lengths 3..10 over {00, 01, FF}
    {
        let n = mccore::strings_upto_count(3, 10);
        ctx.family(rep, "dec-long-strings", "every byte string of length 0..=10 over {0x00,0x01,0xFF} decoded at all widths (leading zeros, over-long inputs)", n, true, |i, rep| {
            let s: Vec<u8> = mccore::string_at(i, 3, 10).iter().map(|x| [0x00u8, 0x01, 0xFF][*x as usize]).collect();
            for w in WIDTHS {
                check_decode("dec-long-strings", i, w, &s, rep);
            }
        });
    }
    // ---- decode: long inputs (any width arithmetic on the length must not wrap)
    {
        let lens: Vec<usize> = (11..=40).chain([127, 128, 129, 255, 256, 257, 258, 260, 263, 264, 265, 272, 511, 512, 513, 1024, 65535, 65536, 65537, 65544]).collect();
        let n = lens.len() as u64 * 3;
        ctx.family(rep, "dec-very-long-strings", "byte strings of 11..40, 127..129, 255..265, 272, 511..513, 1024, 65535..65544 bytes (all zero / all 0xFF / 00..00 01) decoded at all widths: always rejected", n, true, |i, rep| {
            let len = lens[(i / 3) as usize];
            let mut s = vec![if i % 3 == 1 { 0xFFu8 } else { 0 }; len];
            if i % 3 == 2 {
                s[len - 1] = 1;
            }
            for w in WIDTHS {
                let got = dec_w(w, &s);
                if got != Ok(None) {
                    rep.violation(viol("dec-very-long-strings", i, "C06/decode-mismatch", format!("u{} from {} bytes gives {:?}, expected an error", w * 8, len, got), Json::obj().set("length", len).set("width_bytes", w)));
                    return;
                }
            }
            rep.count("over-long-rejected");
            rep.bucket(&("long", len.min(300)));
        });
    }
    // ---- strings: all sequences <= 4 symbols round-trip
    {
        let n = mccore::strings_upto_count(SYMS.len() as u64, 4);
        ctx.family(rep, "text-roundtrip", "every sequence of <= 4 symbols over {a, NUL, 2-, 3-, 4-byte scalar}: String -> bytes -> String", n, true, |i, rep| {
            let s: String = mccore::string_at(i, SYMS.len() as u64, 4).iter().map(|x| SYMS[*x as usize]).collect();
            let r = guard(|| {
                let b = Vec::from(OptionValueString(s.clone()));
                let back = OptionValueString::try_from(b.clone()).ok().map(|x| x.0);
                (b, back)
            });
            match r {
                Ok((b, Some(back))) if b == s.as_bytes() && back == s => {
                    rep.count("text-roundtrip-ok");
                    rep.bucket(&("text", s.len()));
                }
                other => rep.violation(viol(
                    "text-roundtrip",
                    i,
                    "C06/text-roundtrip",
                    format!("{:?} -> {:?}", s, other.map(|x| (hex(&x.0), x.1))),
                    Json::obj().set("string", s.as_str()),
                )),
            }
        });
    }
    // ---- strings: every byte string <= 2/3 accepted iff valid UTF-8
    {
        let maxlen = if ctx.thorough() { 3 } else { 2 };
        let n = mccore::strings_upto_count(256, maxlen);
        ctx.family(rep, "text-utf8-validity", &format!("every byte string of length 0..={} is accepted as text iff it is valid UTF-8", maxlen), n, true, |i, rep| {
            let s: Vec<u8> = mccore::string_at(i, 256, maxlen).iter().map(|x| *x as u8).collect();
            let expect = std::str::from_utf8(&s).ok().map(|x| x.to_string());
            let got = guard(|| OptionValueString::try_from(s.clone()).ok().map(|x| x.0));
            if got.as_ref().ok() == Some(&expect) {
                rep.count(if expect.is_some() { "utf8-accepted" } else { "invalid-utf8-rejected" });
                rep.bucket(&("utf8", s.len(), expect.is_some()));
            } else {
                rep.violation(viol(
                    "text-utf8-validity",
                    i,
                    "C06/utf8-validity",
                    format!("{} -> {:?}, expected {:?}", hex(&s), got, expect),
                    Json::obj().set("bytes", hex(&s)),
                ));
            }
        });
        // longer invalid sequences: truncated multi-byte scalars, surrogates, overlongs, > U+10FFFF
        let tricky: Vec<Vec<u8>> = vec![
            vec![0xE2, 0x82], vec![0xF0, 0x9F, 0x98], vec![0xED, 0xA0, 0x80], vec![0xC0, 0xAF], vec![0xE0, 0x80, 0xAF],
            vec![0xF4, 0x90, 0x80, 0x80], vec![0xF0, 0x9F, 0x98, 0x81], vec![0xE2, 0x82, 0xAC], vec![0x61, 0xFF, 0x61],
            vec![0xF8, 0x88, 0x80, 0x80, 0x80], vec![0xEF, 0xBF, 0xBD], vec![0xF4, 0x8F, 0xBF, 0xBF],
        ];
        let n = tricky.len() as u64;
        ctx.family(rep, "text-utf8-tricky", "truncated scalars, surrogates, over-long forms, beyond U+10FFFF, and their valid neighbours", n, true, |i, rep| {
            let s = &tricky[i as usize];
            let expect = std::str::from_utf8(s).ok().map(|x| x.to_string());
            let got = guard(|| OptionValueString::try_from(s.clone()).ok().map(|x| x.0));
            if got.as_ref().ok() == Some(&expect) {
                rep.count(if expect.is_some() { "utf8-accepted" } else { "invalid-utf8-rejected" });
            } else {
                rep.violation(viol("text-utf8-tricky", i, "C06/utf8-validity", format!("{} -> {:?}", hex(s), got), Json::obj().set("bytes", hex(s))));
            }
        });
    }
    // ---- long text values: one inserted sequence (valid or invalid) at every position of fillers of every length 0..=72,
    //      and the round trip String -> bytes -> String of the valid ones
    {
        let inserts: [&[u8]; 12] = [
            &[], &[0xFF], &[0x80], &[0xC0, 0xAF], &[0xE2, 0x82], &[0xED, 0xA0, 0x80], &[0xF4, 0x90, 0x80, 0x80], &[0xF0, 0x9F, 0x98],
            &[0xC3, 0xA9], &[0xE2, 0x82, 0xAC], &[0xF0, 0x9F, 0x98, 0x81], &[0x00],
        ];
        let fillers: [&str; 3] = ["a", "é", "a€😁z"];
        let radices = [73u64, 73, inserts.len() as u64, fillers.len() as u64];
        let n = product(&radices);
        ctx.family(
            rep,
            "text-long-values",
            "filler text {ASCII, 2-byte scalars, mixed 1/3/4-byte scalars} of every length 0..=72 symbols with one sequence {nothing, FF, 80, C0 AF, E2 82, ED A0 80, F4 90 80 80, F0 9F 98, é, €, 😁, NUL} inserted at every symbol position: accepted iff valid UTF-8, and then equal to the text; String -> bytes is the UTF-8 image",
            n,
            true,
            |i, rep| {
                let d = decode(i, &radices);
                let (len, pos) = (d[0] as usize, d[1] as usize);
                if pos > len {
                    rep.count("skipped-position-beyond-length");
                    return;
                }
                let f: Vec<char> = fillers[d[3] as usize].chars().collect();
                let mut bytes: Vec<u8> = Vec::new();
                let mut buf = [0u8; 4];
                for k in 0..len {
                    if k == pos {
                        bytes.extend_from_slice(inserts[d[2] as usize]);
                    }
                    bytes.extend_from_slice(f[k % f.len()].encode_utf8(&mut buf).as_bytes());
                }
                if pos == len {
                    bytes.extend_from_slice(inserts[d[2] as usize]);
                }
                let expect = std::str::from_utf8(&bytes).ok().map(|x| x.to_string());
                let got = guard(|| OptionValueString::try_from(bytes.clone()).ok().map(|x| x.0));
                let back = expect.as_ref().map(|t| guard(|| Vec::<u8>::from(OptionValueString(t.clone()))));
                if got.as_ref().ok() != Some(&expect) {
                    rep.violation(viol("text-long-values", i, "C06/utf8-validity", format!("{} bytes -> {:?}, expected {:?}", bytes.len(), got.map(|g| g.is_some()), expect.is_some()), Json::obj().set("bytes", hex(&bytes))));
                } else if back.as_ref().map(|b| b.as_ref().ok() != Some(&bytes)).unwrap_or(false) {
                    rep.violation(viol("text-long-values", i, "C06/text-encoding", "String -> bytes is not the UTF-8 image of the text".to_string(), Json::obj().set("bytes", hex(&bytes))));
                } else {
                    rep.count(if expect.is_some() { "utf8-accepted" } else { "invalid-utf8-rejected" });
                    rep.bucket(&("long", len.min(9), d[2], expect.is_some()));
                }
            },
        );
    }
    // ---- typed accessors on Packet: every list of <= 3 values from the boundary set
    {
        let vals: [u64; 8] = [0, 1, 255, 256, 65535, 65536, u32::MAX as u64, u32::MAX as u64 - 255];
        let k = vals.len() as u64;
        let n = mccore::strings_upto_count(k, 3) * 2;
        ctx.family(
            rep,
            "typed-accessors",
            "every list of 0..=3 u32 values over {0,1,255,256,65535,65536,2^32-256,2^32-1}, stored with set_options_as or with repeated add_option_as; read back with get_options_as, get_first_option_as, raw get_option and through the encoded bytes; then set_observe_value",
            n,
            true,
            |i, rep| {
                let via_add = i % 2 == 1;
                let list: Vec<u32> = mccore::string_at(i / 2, k, 3).iter().map(|x| vals[*x as usize] as u32).collect();
                let case = || Json::obj().set("values", list.iter().map(|x| *x as u64).collect::<Vec<_>>()).set("via_add_option_as", via_add);
                let r = guard(|| {
                    let mut p = Packet::new();
                    // something is already there, to be replaced / extended
                    if via_add {
                        for v in &list {
                            p.add_option_as(CoapOption::MaxAge, OptionValueU32(*v));
                        }
                    } else {
                        p.add_option(CoapOption::MaxAge, vec![9, 9, 9, 9, 9]);
                        let l: LinkedList<OptionValueU32> = list.iter().map(|v| OptionValueU32(*v)).collect();
                        p.set_options_as(CoapOption::MaxAge, l);
                    }
                    let typed: Option<Vec<Option<u32>>> =
                        p.get_options_as::<OptionValueU32>(CoapOption::MaxAge).map(|l| l.into_iter().map(|x| x.ok().map(|y| y.0)).collect());
                    let first = p.get_first_option_as::<OptionValueU32>(CoapOption::MaxAge).map(|x| x.ok().map(|y| y.0));
                    let raw: Option<Vec<Vec<u8>>> = p.get_option(CoapOption::MaxAge).map(|l| l.iter().cloned().collect());
                    let wire = p.to_bytes().ok();
                    let reparsed: Option<Vec<Vec<u8>>> = wire
                        .as_ref()
                        .and_then(|w| Packet::from_bytes(w).ok())
                        .map(|q| q.get_option(CoapOption::MaxAge).map(|l| l.iter().cloned().collect()).unwrap_or_default());
                    // observe: after any of those, set twice leaves exactly one value
                    p.add_option(CoapOption::Observe, vec![1, 2, 3]);
                    p.set_observe_value(list.first().copied().unwrap_or(7));
                    p.set_observe_value(list.last().copied().unwrap_or(8));
                    let obs_raw: Vec<Vec<u8>> = p.get_option(CoapOption::Observe).map(|l| l.iter().cloned().collect()).unwrap_or_default();
                    let obs = p.get_observe_value().map(|x| x.ok());
                    // whatever was there before - including a padded encoding of the very same number,
                    // or several values the first of which already equals it - the setter stores exactly one minimal value
                    let v0 = list.first().copied().unwrap_or(5);
                    let mut q = Packet::new();
                    let mut padded = vec![0u8];
                    padded.extend(uint::enc(v0 as u128));
                    q.add_option(CoapOption::Observe, padded);
                    q.add_option(CoapOption::Observe, uint::enc(list.last().copied().unwrap_or(9) as u128));
                    q.set_observe_value(v0);
                    let obs_raw2: Vec<Vec<u8>> = q.get_option(CoapOption::Observe).map(|l| l.iter().cloned().collect()).unwrap_or_default();
                    let mut q = Packet::new();
                    q.add_option(CoapOption::Observe, uint::enc(v0 as u128));
                    q.add_option(CoapOption::Observe, vec![7]);
                    q.set_observe_value(v0);
                    let obs_raw3: Vec<Vec<u8>> = q.get_option(CoapOption::Observe).map(|l| l.iter().cloned().collect()).unwrap_or_default();
                    let obs_raw = if obs_raw2 != vec![uint::enc(v0 as u128)] { obs_raw2 } else if obs_raw3 != vec![uint::enc(v0 as u128)] { obs_raw3 } else { obs_raw };
                    (typed, first, raw, reparsed, obs_raw, obs)
                });
                match r {
                    Err(pn) => rep.violation(viol("typed-accessors", i, format!("C06/panic@{}", pn.site()), pn.message, case())),
                    Ok((typed, first, raw, reparsed, obs_raw, obs)) => {
                        let exp_raw: Vec<Vec<u8>> = list.iter().map(|v| uint::enc(*v as u128)).collect();
                        let exp_typed: Vec<Option<u32>> = list.iter().map(|v| Some(*v)).collect();
                        let present = !list.is_empty() || !via_add;
                        let last = list.last().copied().unwrap_or(8);
                        // an option set to an empty list may be kept as an empty entry or dropped: both are "no values"
                        let (typed, raw) = if list.is_empty() { (typed.or(Some(vec![])), raw.or(Some(vec![]))) } else { (typed, raw) };
                        let ok = if present {
                            typed.as_ref() == Some(&exp_typed)
                                && raw.as_ref() == Some(&exp_raw)
                                && first == list.first().map(|v| Some(*v))
                                && reparsed.as_ref() == Some(&exp_raw)
                        } else {
                            typed.as_ref().map(|t| t.is_empty()).unwrap_or(true) && raw.as_ref().map(|t| t.is_empty()).unwrap_or(true) && first.is_none()
                        } && obs_raw == vec![uint::enc(last as u128)]
                            && obs == Some(Some(last));
                        if ok {
                            rep.count("typed-accessors-ok");
                            rep.bucket(&("acc", list.len(), via_add, exp_raw.iter().map(|x| x.len()).collect::<Vec<_>>()));
                        } else {
                            rep.violation(viol(
                                "typed-accessors",
                                i,
                                "C06/typed-accessor-mismatch",
                                format!("typed {:?} first {:?} raw {:?} reparsed {:?} observe raw {:?} value {:?}", typed, first, raw, reparsed, obs_raw, obs),
                                case(),
                            ));
                        }
                    }
                }
            },
        );
    }
    rep.assume("refmodel::uint (RFC 7252 section 3.2 uint format) and std::str::from_utf8 are the trusted references");
    rep.assume("random values/strings named in the quantifier are replaced by exhaustive families (all u8/u16, all two-byte windows of u64, all byte strings <= 2/3, all symbol sequences <= 4)");
}
