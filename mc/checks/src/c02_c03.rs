//! C02 — every accepted datagram re-encodes to identical bytes.
//! C03 — the parser is total: accepts well-formed, rejects malformed, never panics.
//!
//! Both are bounded-exhaustive enumerations (E1) over the same byte-string
//! generators G0..G3; the oracle differs.

use crate::common::{msg_json, pattern, to_ref};
use coap_lite::Packet;
use mccore::{decode, guard, hex_short, product, viol, Ctx, Json, Report};
use refmodel::codec::{self, RefMsg, Verdict};
use std::cell::RefCell;

#[derive(Clone, Copy, PartialEq, Eq)]
enum Prop {
    C02,
    C03,
}

fn judge(prop: Prop, fam: &str, i: u64, n: u64, b: &[u8], ctx: &Ctx, rep: &mut Report) {
    let res = guard(|| Packet::from_bytes(b));
    let case = || Json::obj().set("bytes", hex_short(b)).set("len", b.len());
    match prop {
        Prop::C03 => {
            let verdict = codec::parse(b);
            let vclass = match &verdict {
                Verdict::MustAccept(_) => "must-accept",
                Verdict::MustReject(_) => "must-reject",
                Verdict::Either(..) => "either",
            };
            match (&verdict, &res) {
                (_, Err(pn)) => {
                    rep.count("violation");
                    rep.violation(viol(fam, i, format!("C03/panic@{}", pn.site()), pn.message.clone(), case()));
                }
                (Verdict::MustAccept(f), Ok(Ok(p))) => {
                    let got = to_ref(p);
                    if &got != f {
                        rep.count("violation");
                        rep.violation(viol(
                            fam,
                            i,
                            "C03/accepted-fields-differ",
                            crate::c01::describe_diff(&got, f),
                            case().set("expected", msg_json(f)),
                        ));
                    } else {
                        rep.count("accepted-as-required");
                        rep.bucket(&("acc", f.options.len().min(4), f.token.len(), f.payload.len().min(3), f.code));
                    }
                }
                (Verdict::MustAccept(f), Ok(Err(e))) => {
                    rep.count("violation");
                    rep.violation(viol(
                        fam,
                        i,
                        format!("C03/rejects-wellformed/{:?}", e),
                        format!("well-formed datagram rejected with {:?}", e),
                        case().set("expected", msg_json(f)),
                    ));
                }
                (Verdict::MustReject(why), Ok(Ok(p))) => {
                    rep.count("violation");
                    rep.violation(viol(
                        fam,
                        i,
                        format!("C03/accepts-malformed/{}", why),
                        format!("malformed datagram ({}) accepted", why),
                        case().set("parsed_as", msg_json(&to_ref(p))),
                    ));
                }
                (Verdict::MustReject(why), Ok(Err(e))) => {
                    rep.count("rejected-as-required");
                    rep.bucket(&("rej", *why, format!("{:?}", e)));
                }
                (Verdict::Either(_, why), Ok(r)) => {
                    rep.count(if r.is_ok() { "either-accepted" } else { "either-rejected" });
                    rep.bucket(&("either", *why, r.is_ok()));
                }
            }
            let _ = vclass;
        }
        Prop::C02 => match res {
            Err(_) => rep.count("parser-panicked(outside C02's domain; C03 reports it)"),
            Ok(Err(_)) => rep.count("rejected"),
            Ok(Ok(p)) => match guard(|| p.to_bytes_unlimited()) {
                Err(pn) => {
                    rep.count("violation");
                    rep.violation(viol(fam, i, format!("C02/reencode-panic@{}", pn.site()), pn.message, case()));
                }
                Ok(Err(e)) => {
                    rep.count("violation");
                    rep.violation(viol(
                        fam,
                        i,
                        format!("C02/reencode-error/{:?}", e),
                        format!("accepted datagram cannot be re-encoded: {:?}", e),
                        case(),
                    ));
                }
                Ok(Ok(r)) => {
                    let class = if r == b {
                        Some("identical")
                    } else if b.len() == r.len() + 1 && b[..r.len()] == r[..] && b[r.len()] == 0xFF {
                        Some("trailing-marker-dropped")
                    } else if b[1] == 0x00 && b.len() > r.len() && b[..r.len()] == r[..] && b[r.len()] == 0xFF {
                        Some("empty-message-payload-dropped")
                    } else {
                        None
                    };
                    match class {
                        Some(c) => {
                            rep.count(c);
                            rep.bucket(&(c, p.options().count().min(4), p.get_token().len(), p.payload.len().min(3)));
                        }
                        None => {
                            rep.count("violation");
                            let at = r.iter().zip(b.iter()).position(|(x, y)| x != y).unwrap_or(r.len().min(b.len()));
                            rep.violation(viol(
                                fam,
                                i,
                                "C02/reencode-differs",
                                format!(
                                    "input {} bytes, re-encoded {} bytes, first difference at offset {}",
                                    b.len(),
                                    r.len(),
                                    at
                                ),
                                case().set("reencoded", hex_short(&r)),
                            ));
                        }
                    }
                }
            },
        },
    }
    if ctx.want_sample(i, n) {
        rep.sample(Json::obj().set("family", fam).set("index", i).set("bytes", hex_short(b)));
    }
}

/// Header+token prefixes for G1.
fn prefixes() -> Vec<(String, Vec<u8>)> {
    let mut v: Vec<(String, Vec<u8>)> = Vec::new();
    v.push(("raw".into(), vec![]));
    for tkl in 0..=8u8 {
        let mut b = vec![0x40 | tkl, 0x01, 0x12, 0x34];
        b.extend(pattern(tkl as usize, 0x31));
        v.push((format!("v1-con-get-tkl{}", tkl), b));
    }
    for tkl in 9..=15u8 {
        v.push((format!("v1-con-get-tkl{}-nothing-follows", tkl), vec![0x40 | tkl, 0x01, 0x12, 0x34]));
    }
    // tkl 9 and 15 with enough bytes behind them that a lenient parser could take them as a token
    for tkl in [9u8, 15] {
        let mut b = vec![0x40 | tkl, 0x01, 0x12, 0x34];
        b.extend(pattern(tkl as usize, 0x32));
        v.push((format!("v1-con-get-tkl{}-with-bytes", tkl), b));
    }
    for ver in [0u8, 2, 3] {
        v.push((format!("v{}-con-get", ver), vec![ver << 6, 0x01, 0x00, 0x01]));
    }
    for t in 1..=3u8 {
        v.push((format!("v1-type{}-content", t), vec![0x40 | (t << 4), 0x45, 0xFF, 0xFF]));
    }
    for (name, code) in [("empty", 0x00u8), ("content", 0x45), ("7.31", 0xFF)] {
        v.push((format!("v1-con-{}-tkl0", name), vec![0x40, code, 0x00, 0x00]));
        v.push((format!("v1-con-{}-tkl2", name), vec![0x42, code, 0x00, 0x00, 0xAA, 0xFF]));
    }
    // token declared longer than what the prefix holds: the enumerated bytes complete (or fail to complete) it
    v.push(("v1-tkl4-two-token-bytes-present".into(), vec![0x44, 0x01, 0x00, 0x02, 0x01, 0x02]));
    v.push(("v1-tkl8-seven-token-bytes-present".into(), vec![0x48, 0x01, 0x00, 0x02, 1, 2, 3, 4, 5, 6, 7]));
    // after one complete option (so the enumerated bytes are a second option / marker / payload)
    v.push(("after-option-11".into(), vec![0x40, 0x01, 0x00, 0x03, 0xB1, 0x61]));
    v.push(("after-option-65000".into(), vec![0x40, 0x01, 0x00, 0x03, 0xE0, 0xFC, 0xDB]));
    v.push(("after-option-65535".into(), vec![0x40, 0x01, 0x00, 0x03, 0xE0, 0xFE, 0xF2]));
    v.push(("after-marker".into(), vec![0x40, 0x01, 0x00, 0x04, 0xFF]));
    v
}

thread_local! {
    static BIG: RefCell<Vec<u8>> = RefCell::new(Vec::new());
}

/// Runs `f` on `head ++ fill[..tail_len]` without allocating per case.
fn with_input<R>(head: &[u8], tail_len: usize, f: impl FnOnce(&[u8]) -> R) -> R {
    BIG.with(|b| {
        let mut b = b.borrow_mut();
        let need = 16 + 66000 + 16;
        if b.len() < need {
            *b = pattern(need, 0x5A);
        }
        // write the head in front of an untouched pattern region
        let start = 16 - head.len().min(16);
        if head.len() > 16 {
            let mut v = head.to_vec();
            v.extend_from_slice(&b[16..16 + tail_len]);
            return f(&v);
        }
        b[start..16].copy_from_slice(head);
        f(&b[start..16 + tail_len])
    })
}

fn corpus() -> Vec<Vec<u8>> {
    // Well-formed messages of at most 64 bytes: products over small option sets, token lengths, payloads.
    let mut out = Vec::new();
    let opt_sets: Vec<Vec<(u32, Vec<u8>)>> = vec![
        vec![],
        vec![(11, b"a".to_vec())],
        vec![(3, b"host".to_vec()), (11, b"p".to_vec()), (11, b"q".to_vec())],
        vec![(12, vec![]), (60, vec![1, 0])],
        vec![(258, vec![0x1A])],
        vec![(13, pattern(13, 1))],
        vec![(269, pattern(14, 2))],
        vec![(270, vec![]), (65535, vec![9])],
        vec![(6, vec![]), (23, vec![0x0E]), (27, vec![0x10, 0x06])],
        vec![(1, pattern(8, 4)), (1, pattern(8, 5)), (4, pattern(8, 6))],
        vec![(65000, pattern(3, 7))],
        vec![(14, pattern(20, 8))],
    ];
    for (oi, opts) in opt_sets.iter().enumerate() {
        for tkl in [0usize, 1, 8] {
            for payload in [vec![], vec![0xFF], b"hello".to_vec()] {
                for (code, mtype) in [(0x01u8, 0u8), (0x45, 2), (0x00, 0)] {
                    if code == 0 && (oi > 0 || tkl > 0 || !payload.is_empty()) {
                        continue;
                    }
                    let m = RefMsg {
                        version: 1,
                        mtype,
                        token: pattern(tkl, 0x77),
                        code,
                        mid: 0x0102 + oi as u16,
                        options: opts.clone(),
                        payload: payload.clone(),
                    };
                    let b = codec::enc(&m).unwrap();
                    if b.len() <= 64 {
                        out.push(b);
                    }
                }
            }
        }
    }
    out
}

fn run(prop: Prop, ctx: &Ctx, rep: &mut Report) {
    let pname = if prop == Prop::C02 { "C02" } else { "C03" };
    if ctx.config == "dev0" {
        // unoptimised build: only the families whose point is the *size* of the input
        size_families(prop, ctx, rep);
        rep.assume("configuration dev0 (opt-level 0, all checks on) runs the size families only: stack depth and buffer use depend on the optimisation level");
        return;
    }
    // ---------------- G1: all short strings after each prefix
    let pre = prefixes();
    let full_len3: Vec<&str> = vec!["raw", "v1-con-get-tkl0"];
    for (pi, (name, head)) in pre.iter().enumerate() {
        // the 2^32 family runs in configuration oc (C02) / oc and rel (C03) only
        let four = ctx.thorough() && name == "v1-con-get-tkl0" && (ctx.config == "oc" || (prop == Prop::C03 && ctx.config == "rel"));
        let maxlen: u32 = if four {
            4 // every possible 4-byte continuation of a plain header: 2^32 inputs
        } else if ctx.thorough() || full_len3.contains(&name.as_str()) {
            3
        } else {
            2
        };
        let n = mccore::strings_upto_count(256, maxlen);
        let fam = format!("G1-{:02}-{}", pi, name);
        ctx.family(
            rep,
            &fam,
            &format!("every byte string of length 0..={} appended to prefix {} ({})", maxlen, name, mccore::hex(head)),
            n,
            true,
            |i, rep| {
                let s = mccore::string_at(i, 256, maxlen);
                let mut b = [0u8; 32];
                let hl = head.len();
                b[..hl].copy_from_slice(head);
                for (k, x) in s.iter().enumerate() {
                    b[hl + k] = *x as u8;
                }
                judge(prop, &fam, i, n, &b[..hl + s.len()], ctx, rep);
            },
        );
    }
    // ---------------- G2a: every option header byte with delta nibble 13/14 x every extended-delta value
    let pre_nums: [u32; 4] = [0, 12, 65000, 65535];
    {
        // enumerate (B, lext choice, preceding) table; dext is the swept coordinate
        let mut rows: Vec<(u8, Option<u32>, u32)> = Vec::new();
        for b in 0..=255u8 {
            let dn = b >> 4;
            let ln = b & 0xF;
            if dn != 13 && dn != 14 {
                continue;
            }
            let lexts: Vec<Option<u32>> = match ln {
                13 => vec![Some(0), Some(0xFF)],
                14 => vec![Some(0), Some(0xFFFF)],
                _ => vec![None],
            };
            for l in lexts {
                for p in pre_nums {
                    rows.push((b, l, p));
                }
            }
        }
        for (dn, width, name) in [(13u8, 256u64, "G2a-delta-ext-8bit"), (14, 65536, "G2a-delta-ext-16bit")] {
            let rows_d: Vec<_> = rows.iter().filter(|r| r.0 >> 4 == dn).cloned().collect();
            let radices = [rows_d.len() as u64, width];
            let n = product(&radices);
            ctx.family(
                rep,
                name,
                "every option header byte whose delta nibble is 13/14 x every extended delta value x extended length {0,max} x preceded by an option numbered {none,12,65000,65535}; value present in full when <= 600 bytes, else cut right after the option header",
                n,
                true,
                |i, rep| {
                    let d = decode(i, &radices);
                    let (b, lext, prenum) = rows_d[d[0] as usize];
                    let dext = d[1] as u32;
                    let mut head = vec![0x40u8, 0x01, 0x00, 0x07];
                    if prenum > 0 {
                        let m = RefMsg { version: 1, code: 1, options: vec![(prenum, vec![])], ..Default::default() };
                        head = codec::enc(&m).unwrap();
                        head[3] = 0x07;
                    }
                    head.push(b);
                    if dn == 13 {
                        head.push(dext as u8);
                    } else {
                        head.extend_from_slice(&(dext as u16).to_be_bytes());
                    }
                    let ln = (b & 0xF) as usize;
                    let declared = match (ln, lext) {
                        (13, Some(e)) => {
                            head.push(e as u8);
                            e as usize + 13
                        }
                        (14, Some(e)) => {
                            head.extend_from_slice(&(e as u16).to_be_bytes());
                            e as usize + 269
                        }
                        (15, _) => 0,
                        (l, _) => l,
                    };
                    let tail = if declared <= 600 { declared } else { 0 };
                    with_input(&head, tail, |inp| judge(prop, name, i, n, inp, ctx, rep));
                },
            );
        }
    }
    // ---------------- G2b: every option header byte with length nibble 13/14 x every extended-length value
    {
        for (lnib, width, name) in [(13u8, 256u64, "G2b-length-ext-8bit"), (14, 65536, "G2b-length-ext-16bit")] {
            // rows: (B, dext choice, preceding, value mode 0 full / 1 one byte short / 2 cut after header)
            let mut rows: Vec<(u8, Option<u32>, u32, u8)> = Vec::new();
            for b in 0..=255u8 {
                if b & 0xF != lnib {
                    continue;
                }
                let dn = b >> 4;
                let dexts: Vec<Option<u32>> = match dn {
                    13 => vec![Some(0), Some(0xFF)],
                    14 => vec![Some(0), Some(0xFFFF)],
                    _ => vec![None],
                };
                for dx in dexts {
                    for p in [0u32, 65535] {
                        // big values in full only for delta nibbles 0 and 1 (same code path for the others)
                        let modes: &[u8] = if lnib == 13 || dn <= 1 { &[0, 1, 2] } else { &[2] };
                        for &m in modes {
                            rows.push((b, dx, p, m));
                        }
                    }
                }
            }
            let stride: u64 = if lnib == 14 && ctx.quick() { 1 } else { 1 };
            let radices = [rows.len() as u64, width / stride];
            let n = product(&radices);
            ctx.family(
                rep,
                name,
                "every option header byte whose length nibble is 13/14 x every extended length value x extended delta {0,max} x preceded by {none, option 65535} x value {complete, one byte short, cut after the option header}",
                n,
                true,
                |i, rep| {
                    let d = decode(i, &radices);
                    let (b, dext, prenum, mode) = rows[d[0] as usize];
                    let lext = (d[1] * stride) as u32;
                    let mut head = vec![0x40u8, 0x02, 0x00, 0x08];
                    if prenum > 0 {
                        let m = RefMsg { version: 1, code: 2, options: vec![(prenum, vec![])], ..Default::default() };
                        head = codec::enc(&m).unwrap();
                    }
                    head.push(b);
                    match (b >> 4, dext) {
                        (13, Some(e)) => head.push(e as u8),
                        (14, Some(e)) => head.extend_from_slice(&(e as u16).to_be_bytes()),
                        _ => {}
                    }
                    let declared = if lnib == 13 {
                        head.push(lext as u8);
                        lext as usize + 13
                    } else {
                        head.extend_from_slice(&(lext as u16).to_be_bytes());
                        lext as usize + 269
                    };
                    let tail = match mode {
                        0 => declared,
                        1 => declared - 1,
                        _ => 0,
                    };
                    with_input(&head, tail, |inp| judge(prop, name, i, n, inp, ctx, rep));
                },
            );
        }
    }
    // ---------------- G2c: every option header byte without extension, value complete / one short, after each predecessor
    {
        let radices = [256u64, 4, 3];
        let n = product(&radices);
        ctx.family(
            rep,
            "G2c-plain-header-bytes",
            "every option header byte x preceded by {none,12,65000,65535} x bytes following {as many as the literal length, one fewer, two extension-sized bytes only}",
            n,
            true,
            |i, rep| {
                let d = decode(i, &radices);
                let b = d[0] as u8;
                let prenum = pre_nums[d[1] as usize];
                let mut head = vec![0x40u8, 0x03, 0x00, 0x09];
                if prenum > 0 {
                    let m = RefMsg { version: 1, code: 3, options: vec![(prenum, vec![])], ..Default::default() };
                    head = codec::enc(&m).unwrap();
                }
                head.push(b);
                let lit = (b & 0xF) as usize;
                let tail = match d[2] {
                    0 => lit,
                    1 => lit.saturating_sub(1),
                    _ => 2,
                };
                with_input(&head, tail, |inp| judge(prop, "G2c-plain-header-bytes", i, n, inp, ctx, rep));
            },
        );
    }
    // ---------------- G4: sequences of option "atoms" (complete options, malformed fragments, the marker)
    {
        let mut atoms: Vec<Vec<u8>> = vec![
            vec![0x00],
            vec![0x10],
            vec![0x11, 0xAA],
            vec![0x01, 0xFF],
            vec![0xC0],
            vec![0xD0, 0x00],
            vec![0xD0, 0xFF],
            vec![0xE0, 0x00, 0x00],
            vec![0xE0, 0xFE, 0xF2],
            vec![0xFF],
            vec![0xFF, 0x00],
            vec![0xF0],
            vec![0x0F],
            vec![0xD1],
            vec![0x1E, 0x00],
        ];
        let mut a13 = vec![0x0D, 0x00];
        a13.extend(pattern(13, 3));
        atoms.push(a13);
        let mut a269 = vec![0x1E, 0x00, 0x00];
        a269.extend(pattern(269, 4));
        atoms.push(a269);
        let k = atoms.len() as u64;
        let maxlen = if ctx.thorough() { 6 } else { 5 };
        let seqs = mccore::strings_upto_count(k, maxlen);
        let heads: [&[u8]; 3] = [&[0x40, 0x01, 0x00, 0x0A], &[0x42, 0x45, 0x00, 0x0B, 0xFF, 0xFF], &[0x48, 0x02, 0x00, 0x0C, 1, 2, 3, 4, 5, 6, 7, 8]];
        let radices = [seqs, 3];
        let n = product(&radices);
        ctx.family(
            rep,
            "G4-option-atom-sequences",
            &format!("every sequence of 0..={} option atoms from {} atoms (complete options with literal / 8-bit / 16-bit extensions and values of 0, 1, 13, 269 bytes, option numbers up to 65535, truncated and reserved header bytes, the payload marker) after headers with token length 0, 2 and 8", maxlen, atoms.len()),
            n,
            true,
            |i, rep| {
                let d = decode(i, &radices);
                let mut b: Vec<u8> = heads[d[1] as usize].to_vec();
                for a in mccore::string_at(d[0], k, maxlen) {
                    b.extend_from_slice(&atoms[a as usize]);
                }
                judge(prop, "G4-option-atom-sequences", i, n, &b, ctx, rep);
            },
        );
    }
    size_families(prop, ctx, rep);
    // ---------------- G3: every prefix and every single-byte substitution of a corpus of well-formed messages
    {
        let corp = corpus();
        // index space: for message k of length L: L+1 prefixes, then L*256 substitutions
        let mut offsets = Vec::with_capacity(corp.len() + 1);
        let mut total = 0u64;
        for m in &corp {
            offsets.push(total);
            total += (m.len() as u64 + 1) + m.len() as u64 * 256;
        }
        offsets.push(total);
        let n = total;
        ctx.family(
            rep,
            "G3-prefixes-and-substitutions",
            &format!("every prefix and every single-byte substitution (position x 256 values) of {} well-formed messages of <= 64 bytes", corp.len()),
            n,
            true,
            |i, rep| {
                let k = match offsets.binary_search(&i) {
                    Ok(k) => k,
                    Err(k) => k - 1,
                };
                let m = &corp[k];
                let j = i - offsets[k];
                let mut buf = [0u8; 64];
                let l = m.len();
                buf[..l].copy_from_slice(m);
                if j <= l as u64 {
                    judge(prop, "G3-prefixes-and-substitutions", i, n, &buf[..j as usize], ctx, rep);
                } else {
                    let j = j - (l as u64 + 1);
                    let pos = (j / 256) as usize;
                    buf[pos] = (j % 256) as u8;
                    judge(prop, "G3-prefixes-and-substitutions", i, n, &buf[..l], ctx, rep);
                }
            },
        );
        rep.note("G3_corpus_messages", corp.len());
    }
    // ---------------- G7: two adjacent option instances whose value lengths coincide modulo 2^8 / 2^16
    {
        let adds: [usize; 5] = [256, 512, 65280, 65536, 0];
        let radices = [301u64, adds.len() as u64, 2, 3, 2];
        let n = product(&radices);
        ctx.family(
            rep,
            "G7-adjacent-lengths-equal-modulo-256-65536",
            "well-formed datagrams with two (three) adjacent option instances of lengths l and l+{256,512,65280,65536,0} (l = 0..=300, both orders, second delta {0,1,13}, optionally followed by a third instance of length l)",
            n,
            true,
            |i, rep| {
                let d = decode(i, &radices);
                let l = d[0] as usize;
                let l2 = l + adds[d[1] as usize];
                if l2 > codec::MAX_EXT {
                    rep.count("skipped-length-not-encodable");
                    return;
                }
                let (a, b) = if d[2] == 0 { (l, l2) } else { (l2, l) };
                let second = 11 + [0u32, 1, 13][d[3] as usize];
                let mut options = vec![(11u32, pattern(a, 0x21)), (second, pattern(b, 0x43))];
                if d[4] == 1 {
                    options.push((second, pattern(l, 0x65)));
                }
                let m = RefMsg { version: 1, mtype: 0, token: vec![7], code: 2, mid: 0x1234, options, payload: vec![] };
                let bytes = codec::enc(&m).unwrap();
                judge(prop, "G7-adjacent-lengths-equal-modulo-256-65536", i, n, &bytes, ctx, rep);
            },
        );
    }
    rep.note("property", pname);
    rep.assume("refmodel::codec::parse (three-valued RFC 7252 section 3 parser written from the RFC text) is the trusted reference");
    if prop == Prop::C02 {
        rep.assume("injectivity (no two different accepted datagrams parse to equal messages) follows from re-encode identity and is not searched separately");
        rep.assume("random long strings named in the quantifier are replaced by the exhaustive generators G1-G3; no sampling takes part in the verdict");
    }
}

fn size_families(prop: Prop, ctx: &Ctx, rep: &mut Report) {
    // ---------------- G5: well-formed datagrams with n option instances whose value sizes add up to every total 0..=300
    {
        let ns: [usize; 7] = [1, 2, 3, 5, 6, 10, 16];
        let radices = [ns.len() as u64, 301, 2, 2];
        let n = product(&radices);
        ctx.family(
            rep,
            "G5-value-size-totals",
            "well-formed datagrams: n in {1,2,3,5,6,10,16} option instances (same number / consecutive numbers) whose value lengths add up to every total 0..=300, with and without a payload",
            n,
            true,
            |i, rep| {
                let d = decode(i, &radices);
                let mut m = crate::c01::many_instances(ns[d[0] as usize], d[1] as usize, d[2] == 1);
                if d[3] == 1 {
                    m.payload = vec![0xFF, 0x01];
                }
                let b = codec::enc(&m).unwrap();
                judge(prop, "G5-value-size-totals", i, n, &b, ctx, rep);
            },
        );
    }
    // ---------------- G6: very many options in one datagram
    {
        let counts: [usize; 17] = [50, 500, 3000, 4000, 10_000, 20_000, 30_000, 60_000, 65_534, 65_535, 65_536, 65_537, 70_000, 131_071, 131_072, 131_073, 200_000];
        let tails: [&[u8]; 6] = [&[], &[0xFF, 0x01, 0x02], &[0xF1, 0x00], &[0x1D], &[0x15, 0x01, 0x02], &[0x1F, 0x00]];
        let n = counts.len() as u64 * 2 * tails.len() as u64;
        ctx.family(
            rep,
            "G6-very-many-options",
            "datagrams with 50 .. 200000 one-byte options (all the same number / every option number + 1, which passes 65535 for the larger counts) followed by {nothing, a payload, delta nibble 15, a truncated extended delta, a truncated value, length nibble 15}",
            n,
            true,
            |i, rep| {
                let t = tails[(i % tails.len() as u64) as usize];
                let i2 = i / tails.len() as u64;
                let k = counts[(i2 / 2) as usize];
                let step: u8 = if i2 % 2 == 0 { 0x01 } else { 0x11 }; // delta 0 or 1, length 1
                let mut b = vec![0x40u8, 0x01, 0x77, 0x88];
                for j in 0..k {
                    b.push(if j == 0 { 0xB1 } else { step });
                    b.push(b'a' + (j % 26) as u8);
                }
                b.extend_from_slice(t);
                judge(prop, "G6-very-many-options", i, n, &b, ctx, rep);
            },
        );
    }
}

pub fn run_c02(ctx: &Ctx, rep: &mut Report) {
    run(Prop::C02, ctx, rep)
}
pub fn run_c03(ctx: &Ctx, rep: &mut Report) {
    run(Prop::C03, ctx, rep)
}
