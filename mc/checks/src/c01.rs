//! C01 — encoded messages are the exact RFC 7252 wire image and decode back.
//!
//! Part A (E2): breadth-first search over *orders of public API calls* on a real
//! `Packet`, lock-step with `refmodel::packet::RefPacket`; in every visited
//! state the wire image and the decode-back are compared with the reference
//! codec.  Part B (E1): complete products over the arithmetic boundaries of the
//! option encoding (13, 269, 243+13, 65535, 65804) and the header fields.

use crate::common::{build, msg_json, pattern, to_ref, u8_to_mtype};
use coap_lite::{error::MessageError, CoapOption, MessageClass, Packet};
use mccore::bfs::{self, Step};
use mccore::{decode, guard, product, viol, Ctx, Json, Report};
use refmodel::codec::{self, RefMsg, Verdict};
use refmodel::packet::RefPacket;
use std::collections::LinkedList;

/// Compares encode, decode-back and the size-limited encoder of `p` against the
/// reference for the message `m` that `p` is supposed to denote.
pub fn codec_oracle(p: &Packet, m: &RefMsg) -> Result<&'static str, (String, String)> {
    let expect = match codec::enc(m) {
        Ok(b) => b,
        Err(e) => return Err(("MACHINERY/unencodable-model".into(), format!("{:?}", e))),
    };
    // 1. wire image
    match guard(|| p.to_bytes_unlimited()) {
        Err(pn) => return Err((format!("C01/encode-panic@{}", pn.site()), pn.message)),
        Ok(Err(e)) => return Err(("C01/encode-error".into(), format!("to_bytes_unlimited returned {:?}", e))),
        Ok(Ok(got)) => {
            if got != expect {
                let at = got.iter().zip(expect.iter()).position(|(a, b)| a != b).unwrap_or(got.len().min(expect.len()));
                return Err((
                    "C01/wire-image-mismatch".into(),
                    format!(
                        "encoded {} bytes, reference {} bytes, first difference at offset {}",
                        got.len(),
                        expect.len(),
                        at
                    ),
                ));
            }
        }
    }
    // 2. decode back
    let verdict = codec::parse(&expect);
    let class;
    match guard(|| Packet::from_bytes(&expect)) {
        Err(pn) => return Err((format!("C01/decode-panic@{}", pn.site()), pn.message)),
        Ok(res) => match (&verdict, res) {
            (Verdict::MustReject(why), _) => {
                return Err(("MACHINERY/reference-rejects-reference-encoding".into(), why.to_string()))
            }
            (Verdict::MustAccept(f), Ok(d)) => {
                let got = to_ref(&d);
                if &got != f {
                    return Err(("C01/decode-back-differs".into(), describe_diff(&got, f)));
                }
                class = "roundtrip-ok";
            }
            (Verdict::MustAccept(_), Err(e)) => {
                return Err((format!("C01/decode-rejects-own-output/{:?}", e), format!("from_bytes returned {:?}", e)))
            }
            (Verdict::Either(f, _), Ok(d)) => {
                // "if accepted, equal"
                let got = to_ref(&d);
                if &got != f {
                    return Err(("C01/decode-back-differs".into(), describe_diff(&got, f)));
                }
                class = "roundtrip-ok-lenient-domain";
            }
            (Verdict::Either(_, _), Err(_)) => {
                class = "stricter-reject-permitted";
            }
        },
    }
    // 3. the default-limit encoder agrees whenever the message fits
    match guard(|| p.to_bytes()) {
        Err(pn) => return Err((format!("C01/encode-panic@{}", pn.site()), pn.message)),
        Ok(r) => {
            if expect.len() <= Packet::MAX_SIZE {
                if r.as_ref().ok() != Some(&expect) {
                    return Err((
                        "C01/to_bytes-differs-from-unlimited".into(),
                        format!("wire length {} <= MAX_SIZE {} but to_bytes gave {:?}", expect.len(), Packet::MAX_SIZE, r.map(|b| b.len())),
                    ));
                }
            } else if r != Err(MessageError::InvalidPacketLength) {
                return Err((
                    "C01/to_bytes-accepts-oversize".into(),
                    format!("wire length {} > MAX_SIZE {} but to_bytes gave {:?}", expect.len(), Packet::MAX_SIZE, r.map(|b| b.len())),
                ));
            }
        }
    }
    // 4. the custom-limit encoder yields the same wire image when the limit is exactly the wire length
    match guard(|| p.to_bytes_with_limit(expect.len())) {
        Err(pn) => return Err((format!("C01/encode-panic@{}", pn.site()), pn.message)),
        Ok(r) => {
            if r.as_ref().ok() != Some(&expect) {
                return Err((
                    "C01/to_bytes_with_limit-differs-at-exact-limit".into(),
                    format!("wire length {} == limit, but to_bytes_with_limit gave {:?}", expect.len(), r.map(|b| b.len())),
                ));
            }
        }
    }
    Ok(class)
}

pub fn describe_diff(got: &RefMsg, want: &RefMsg) -> String {
    if got.version != want.version {
        return format!("version {} != {}", got.version, want.version);
    }
    if got.mtype != want.mtype {
        return format!("type {} != {}", got.mtype, want.mtype);
    }
    if got.token != want.token {
        return format!("token {:02x?} != {:02x?}", got.token, want.token);
    }
    if got.code != want.code {
        return format!("code {:#04x} != {:#04x}", got.code, want.code);
    }
    if got.mid != want.mid {
        return format!("mid {} != {}", got.mid, want.mid);
    }
    if got.payload != want.payload {
        return format!("payload ({} bytes) != expected ({} bytes)", got.payload.len(), want.payload.len());
    }
    if got.options.len() != want.options.len() {
        return format!(
            "{} option values (numbers {:?}) != expected {} (numbers {:?})",
            got.options.len(),
            got.options.iter().map(|o| o.0).take(6).collect::<Vec<_>>(),
            want.options.len(),
            want.options.iter().map(|o| o.0).take(6).collect::<Vec<_>>()
        );
    }
    for (i, (g, w)) in got.options.iter().zip(want.options.iter()).enumerate() {
        if g.0 != w.0 {
            return format!("option #{}: number {} != {}", i, g.0, w.0);
        }
        if g.1 != w.1 {
            return format!("option #{} (number {}): value of {} bytes != expected {} bytes", i, g.0, g.1.len(), w.1.len());
        }
    }
    "equal?".into()
}

// ---------------------------------------------------------------------------
// Part A: orders of API calls
// ---------------------------------------------------------------------------

#[derive(Clone, Debug)]
enum Act {
    Version(u8),
    Type(u8),
    Code(u8),
    CodeStr(&'static str, u8),
    Mid(u16),
    Token(usize),
    Add(u16, usize),
    Clear(u16),
    Set(u16, usize), // number of values
    ClearAll,
    Payload(usize),
}

fn actions() -> Vec<Act> {
    let mut a = Vec::new();
    for v in 0..4 {
        a.push(Act::Version(v));
    }
    for t in 0..4 {
        a.push(Act::Type(t));
    }
    for c in [0x00u8, 0x01, 0x45, 0xFF] {
        a.push(Act::Code(c));
    }
    a.push(Act::CodeStr("4.04", 0x84));
    a.push(Act::CodeStr("7.31", 0xFF));
    for m in [0u16, 0x1234, 0xFFFF] {
        a.push(Act::Mid(m));
    }
    for t in [0usize, 1, 8] {
        a.push(Act::Token(t));
    }
    for n in [3u16, 16, 258, 600] {
        for l in [0usize, 13] {
            a.push(Act::Add(n, l));
        }
    }
    for n in [3u16, 16, 258, 600] {
        a.push(Act::Clear(n));
    }
    for n in [3u16, 258] {
        a.push(Act::Set(n, 0));
        a.push(Act::Set(n, 2));
    }
    a.push(Act::ClearAll);
    for p in [0usize, 1, 3] {
        a.push(Act::Payload(p));
    }
    a
}

fn payload_of(kind: usize) -> Vec<u8> {
    match kind {
        0 => vec![],
        1 => vec![0xFF],
        _ => vec![0x01, 0xFF, 0x00],
    }
}

struct St {
    p: Packet,
    m: RefPacket,
}

// (return values of mutators are discarded: a mutator that starts to return something is still the same mutator)
fn apply(s: &mut St, a: &Act) -> Result<(), mccore::Panicked> {
    let p = &mut s.p;
    let m = &mut s.m;
    match a.clone() {
        Act::Version(v) => {
            m.set_version(v);
            guard(|| {
                let _ = p.header.set_version(v);
            })
        }
        Act::Type(t) => {
            m.set_type(t);
            guard(|| {
                let _ = p.header.set_type(u8_to_mtype(t));
            })
        }
        Act::Code(c) => {
            m.set_code(c);
            guard(|| p.header.code = MessageClass::from(c))
        }
        Act::CodeStr(s, c) => {
            m.set_code(c);
            guard(|| {
                let _ = p.header.set_code(s);
            })
        }
        Act::Mid(x) => {
            m.set_mid(x);
            guard(|| p.header.message_id = x)
        }
        Act::Token(l) => {
            let t = pattern(l, 0x11);
            m.set_token(t.clone());
            guard(|| {
                let _ = p.set_token(t);
            })
        }
        Act::Add(n, l) => {
            // the value depends on how many values are already there, so order matters
            let k = m.options.get(&n).map(|x| x.len()).unwrap_or(0) as u8;
            let v = pattern(l, k.wrapping_mul(17).wrapping_add(n as u8));
            m.add_option(n, v.clone());
            guard(|| {
                let _ = p.add_option(CoapOption::from(n), v);
            })
        }
        Act::Clear(n) => {
            m.clear_option(n);
            guard(|| {
                let _ = p.clear_option(CoapOption::from(n));
            })
        }
        Act::Set(n, k) => {
            let vs: Vec<Vec<u8>> = (0..k).map(|i| pattern(1 + 12 * i, 0x40 + i as u8)).collect();
            m.set_option(n, vs.clone());
            let l: LinkedList<Vec<u8>> = vs.into_iter().collect();
            guard(|| {
                let _ = p.set_option(CoapOption::from(n), l);
            })
        }
        Act::ClearAll => {
            m.clear_all_options();
            guard(|| {
                let _ = p.clear_all_options();
            })
        }
        Act::Payload(k) => {
            let pl = payload_of(k);
            m.set_payload(pl.clone());
            guard(|| p.payload = pl)
        }
    }
}

/// Canonical key of the *implementation* state, through public getters only,
/// including option lists that were emptied.
fn key_impl(p: &Packet) -> (u8, u8, u8, u8, u16, Vec<u8>, Vec<(u16, Vec<Vec<u8>>)>, Vec<u8>) {
    (
        p.header.get_version(),
        crate::common::mtype_to_u8(p.header.get_type()),
        p.header.get_token_length(),
        u8::from(p.header.code),
        p.header.message_id,
        p.get_token().to_vec(),
        p.options().map(|(n, l)| (*n, l.iter().cloned().collect())).collect(),
        p.payload.clone(),
    )
}

type PKey = (u8, u8, u8, u8, u16, Vec<u8>, Vec<(u16, Vec<Vec<u8>>)>, Vec<u8>);

/// For the comparison with the API model: an option whose values were all cleared may or may not keep an
/// (empty) entry. (Deduplication uses the full key: over-fine is safe, over-coarse would hide states.)
fn without_empty_lists(mut k: PKey) -> PKey {
    k.6.retain(|(_, l)| !l.is_empty());
    k
}

fn key_model(m: &RefPacket) -> (u8, u8, u8, u8, u16, Vec<u8>, Vec<(u16, Vec<Vec<u8>>)>, Vec<u8>) {
    (
        m.version,
        m.mtype,
        m.token.len() as u8,
        m.code,
        m.mid,
        m.token.clone(),
        m.options.iter().map(|(n, l)| (*n, l.clone())).collect(),
        m.payload.clone(),
    )
}

fn part_a(ctx: &Ctx, rep: &mut Report) {
    let acts = actions();
    let depth = if ctx.thorough() { 6 } else { 5 };
    let st = bfs::run(
        ctx,
        rep,
        bfs::Spec {
            name: "A-api-call-orders",
            description: "BFS over sequences of public Packet/Header mutators (40 actions), dedup on the full observable state incl. emptied option lists (compared with the model modulo such empty entries); wire image and decode-back checked in every visited state",
            nacts: acts.len(),
            max_depth: depth,
            fresh: &|| St { p: Packet::new(), m: RefPacket::default() },
            step: &|s: &mut St, a: usize, check: bool| {
                if let Err(pn) = apply(s, &acts[a]) {
                    return Step::Violated(
                        format!("C01/api-call-panic@{}", pn.site()),
                        pn.message,
                        Json::obj().set("action", format!("{:?}", acts[a])),
                    );
                }
                if check {
                    if without_empty_lists(key_impl(&s.p)) != without_empty_lists(key_model(&s.m)) {
                        return Step::Violated(
                            "C01/api-state-differs-from-model".into(),
                            format!("after {:?}: observable packet state differs from the API model", acts[a]),
                            msg_json(&s.m.msg()),
                        );
                    }
                    if let Err((sig, what)) = codec_oracle(&s.p, &s.m.msg()) {
                        return Step::Violated(sig, what, msg_json(&s.m.msg()));
                    }
                }
                Step::Ok
            },
            key: &|s: &St| key_impl(&s.p),
            project: None,
            label: &|a| format!("{:?}", acts[a]),
        },
    );
    rep.note("A_depth", depth);
    rep.note("A_states", st.states);
    rep.note("A_transitions", st.transitions);
    rep.note("A_dedup_hits_commuting_orders_converged", st.dedup_hits);
    rep.note("A_states_per_depth", st.per_depth.clone());
}

// ---------------------------------------------------------------------------
// Part B: boundary products
// ---------------------------------------------------------------------------

fn run_case(fam: &str, i: u64, n: u64, m: &RefMsg, ctx: &Ctx, rep: &mut Report) {
    let p = match guard(|| build(m)) {
        Ok(p) => p,
        Err(pn) => {
            rep.violation(viol(fam, i, format!("C01/api-call-panic@{}", pn.site()), pn.message, msg_json(m)));
            return;
        }
    };
    match codec_oracle(&p, m) {
        Ok(class) => {
            rep.count(class);
            let shape: Vec<(u8, u8)> = {
                let mut prev = 0u32;
                m.options
                    .iter()
                    .map(|(n, v)| {
                        let d = n - prev;
                        prev = *n;
                        (band(d as usize), band(v.len()))
                    })
                    .collect()
            };
            rep.bucket(&(class, shape, m.payload.len().min(3), m.token.len(), m.version, m.mtype));
        }
        Err((sig, what)) => {
            rep.count("violation");
            rep.violation(viol(fam, i, sig, what, msg_json(m)));
        }
    }
    if ctx.want_sample(i, n) {
        rep.sample(Json::obj().set("family", fam).set("index", i).set("message", msg_json(m)));
    }
}

/// Which encoding band a delta / length falls in (boundary-adjacent values get their own band).
pub fn band(v: usize) -> u8 {
    match v {
        0 => 0,
        1..=11 => 1,
        12 => 2,
        13 => 3,
        14..=255 => 4,
        256..=267 => 5,
        268 => 6,
        269 => 7,
        270..=65534 => 8,
        65535 => 9,
        65536..=65803 => 10,
        65804 => 11,
        _ => 12,
    }
}

fn part_b(ctx: &Ctx, rep: &mut Report) {
    // B1: every option number as the first option x value length {0,13,269} x payload {none,[FF]}
    {
        let lens = [0usize, 13, 269];
        let stride: u64 = if ctx.thorough() { 1 } else { 1 };
        let radices = [65536 / stride, 3, 2];
        let n = product(&radices);
        ctx.family(
            rep,
            "B1-first-option-number",
            "every option number 0..=65535 as the first option x value length {0,13,269} x payload {none,[0xFF]}",
            n,
            true,
            |i, rep| {
                let d = decode(i, &radices);
                let num = (d[0] * stride) as u32;
                let m = RefMsg {
                    version: 1,
                    mtype: 0,
                    token: vec![],
                    code: 0x01,
                    mid: (num as u16).wrapping_mul(3),
                    options: vec![(num, pattern(lens[d[1] as usize], num as u8))],
                    payload: if d[2] == 1 { vec![0xFF] } else { vec![] },
                };
                run_case("B1-first-option-number", i, n, &m, ctx, rep);
            },
        );
    }
    // B2: every value length 0..=1500, then every 257th up to 65804 (+ the last two), one option
    {
        let mut lens: Vec<usize> = (0..=1500).collect();
        let mut l = 1500 + 257;
        while l < 65804 {
            lens.push(l);
            l += 257;
        }
        for extra in [65535 - 1, 65535, 65536, 65535 + 268, 65535 + 269 - 1, 65803, 65804] {
            if !lens.contains(&extra) {
                lens.push(extra);
            }
        }
        let n = lens.len() as u64 * 2;
        ctx.family(
            rep,
            "B2-value-length",
            "one Uri-Path option whose value has every length 0..=1500, every 257th length up to 65804 and the lengths around 65535/65804; with and without a payload",
            n,
            true,
            |i, rep| {
                let len = lens[(i / 2) as usize];
                let m = RefMsg {
                    version: 1,
                    mtype: 1,
                    token: vec![7, 7],
                    code: 0x02,
                    mid: len as u16,
                    options: vec![(11, pattern(len, 3))],
                    payload: if i % 2 == 1 { vec![0xFF, 0x00] } else { vec![] },
                };
                run_case("B2-value-length", i, n, &m, ctx, rep);
            },
        );
    }
    // B3: pairs of options: (delta, len)^2 complete over boundary alphabets x payload x token x code
    {
        let deltas: [usize; 10] = [0, 1, 12, 13, 14, 15, 268, 269, 270, usize::MAX];
        let lens: [usize; 8] = [0, 1, 12, 13, 14, 268, 269, 270];
        let radices = [10u64, 8, 10, 8, 3, 2, 2];
        let n = product(&radices);
        ctx.family(
            rep,
            "B3-option-pairs",
            "two options: (delta, length) pairs complete over delta {0,1,12,13,14,15,268,269,270,to-65535} x length {0,1,12,13,14,268,269,270}, x payload {none,[FF],2 bytes} x token {0,8} x code {0.01,2.05}",
            n,
            true,
            |i, rep| {
                let d = decode(i, &radices);
                let mut opts = Vec::new();
                let mut num = 0usize;
                for k in 0..2 {
                    let dl = deltas[d[2 * k] as usize];
                    let delta = if dl == usize::MAX { 65535 - num } else { dl };
                    if num + delta > 65535 {
                        // not a message: option numbers end at 65535
                        rep.count("skipped-number-above-65535");
                        return;
                    }
                    num += delta;
                    opts.push((num as u32, pattern(lens[d[2 * k + 1] as usize], (k as u8) * 5 + 1)));
                }
                let m = RefMsg {
                    version: 1,
                    mtype: 2,
                    token: if d[5] == 1 { pattern(8, 9) } else { vec![] },
                    code: if d[6] == 1 { 0x45 } else { 0x01 },
                    mid: 0xBEEF,
                    options: opts,
                    payload: match d[4] {
                        0 => vec![],
                        1 => vec![0xFF],
                        _ => vec![0xAA, 0xFF],
                    },
                };
                run_case("B3-option-pairs", i, n, &m, ctx, rep);
            },
        );
    }
    // B4: triples over 5-element sub-alphabets
    {
        let deltas: [usize; 5] = [0, 12, 13, 268, 269];
        let lens: [usize; 5] = [0, 12, 13, 268, 269];
        let radices = [5u64, 5, 5, 5, 5, 5, 3, 2];
        let n = product(&radices);
        ctx.family(
            rep,
            "B4-option-triples",
            "three options: (delta, length) triples complete over delta {0,12,13,268,269} x length {0,12,13,268,269}, x payload {none,[FF],2 bytes} x token {0,8}",
            n,
            true,
            |i, rep| {
                let d = decode(i, &radices);
                let mut opts = Vec::new();
                let mut num = 0usize;
                for k in 0..3 {
                    num += deltas[d[2 * k] as usize];
                    opts.push((num as u32, pattern(lens[d[2 * k + 1] as usize], (k as u8) * 7 + 2)));
                }
                let m = RefMsg {
                    version: 1,
                    mtype: 0,
                    token: if d[7] == 1 { pattern(8, 1) } else { vec![] },
                    code: 0x03,
                    mid: 1,
                    options: opts,
                    payload: match d[6] {
                        0 => vec![],
                        1 => vec![0xFF],
                        _ => vec![0xFF, 0xFF],
                    },
                };
                run_case("B4-option-triples", i, n, &m, ctx, rep);
            },
        );
    }
    // B5: header: version x type x token length x all 256 codes x mids {0,1,0xFF00,0xFFFF}
    {
        let mids = [0u16, 1, 0xFF00, 0xFFFF];
        let radices = [4u64, 4, 9, 256, 4];
        let n = product(&radices);
        ctx.family(
            rep,
            "B5-header-fields",
            "all 4 versions x 4 types x token length 0..=8 x all 256 code bytes x message id {0,1,0xFF00,0xFFFF}, one option, a payload",
            n,
            true,
            |i, rep| {
                let d = decode(i, &radices);
                let m = RefMsg {
                    version: d[0] as u8,
                    mtype: d[1] as u8,
                    token: pattern(d[2] as usize, 0x21),
                    code: d[3] as u8,
                    mid: mids[d[4] as usize],
                    options: vec![(12, vec![0x2A])],
                    payload: vec![0x01],
                };
                run_case("B5-header-fields", i, n, &m, ctx, rep);
            },
        );
    }
    // B6: all 65536 message ids for one header
    {
        let n = 65536u64;
        ctx.family(rep, "B6-message-ids", "all 65536 message ids, NON 2.05 with a 4-byte token", n, true, |i, rep| {
            let m = RefMsg {
                version: 1,
                mtype: 1,
                token: vec![1, 2, 3, 4],
                code: 0x45,
                mid: i as u16,
                options: vec![],
                payload: vec![],
            };
            run_case("B6-message-ids", i, n, &m, ctx, rep);
        });
    }
    // B7: repeated options: k values of the same number across the 13/269 length thresholds
    {
        let lens: [usize; 6] = [0, 1, 12, 13, 268, 269];
        let radices = [6u64, 6, 6, 4];
        let nums = [0u32, 11, 258, 65535];
        let n = product(&radices);
        ctx.family(
            rep,
            "B7-repeated-options",
            "three values of the same option number (delta 0 twice) with lengths over {0,1,12,13,268,269}^3, number in {0,11,258,65535}",
            n,
            true,
            |i, rep| {
                let d = decode(i, &radices);
                let num = nums[d[3] as usize];
                let m = RefMsg {
                    version: 1,
                    mtype: 0,
                    token: vec![],
                    code: 0x01,
                    mid: 77,
                    options: (0..3).map(|k| (num, pattern(lens[d[k] as usize], k as u8 + 1))).collect(),
                    payload: vec![0xFF],
                };
                run_case("B7-repeated-options", i, n, &m, ctx, rep);
            },
        );
    }
}

fn part_b_payloads(ctx: &Ctx, rep: &mut Report) {
    // B8: payload lengths (the marker and everything after it), with and without options in front
    let mut lens: Vec<usize> = (0..=300).collect();
    lens.extend(1265..=1295);
    lens.extend([4096, 63990, 63999, 64000, 64001, 65535, 65536, 100_000]);
    let radices = [lens.len() as u64, 3, 2, 2];
    let n = product(&radices);
    ctx.family(
        rep,
        "B8-payload-lengths",
        "payload length 0..=300 (every value), 1265..=1295, 4096, around 64000, 65535, 65536, 100000 x options {none, one short, one of 269 bytes} x payload first byte {0xFF, other} x code {2.05, 0.00}",
        n,
        true,
        |i, rep| {
            let d = decode(i, &radices);
            let mut payload = pattern(lens[d[0] as usize], 0x17);
            if d[2] == 1 && !payload.is_empty() {
                payload[0] = 0x42;
            }
            let options = match d[1] {
                0 => vec![],
                1 => vec![(11u32, b"p".to_vec())],
                _ => vec![(35u32, pattern(269, 4))],
            };
            // code 0.00: the payload is never sent, however long it is
            let m = RefMsg { version: 1, mtype: 0, token: vec![9], code: if d[3] == 1 { 0x00 } else { 0x45 }, mid: 0x0101, options, payload };
            run_case("B8-payload-lengths", i, n, &m, ctx, rep);
        },
    );
}

/// k option instances (same number 11, or numbers 11, 12, ...) whose value lengths add up to `total`.
pub fn many_instances(k: usize, total: usize, distinct: bool) -> RefMsg {
    let options = (0..k)
        .map(|j| {
            let len = total / k + if j < total % k { 1 } else { 0 };
            (if distinct { 11 + j as u32 } else { 11 }, pattern(len, j as u8))
        })
        .collect();
    RefMsg { version: 1, mtype: 0, token: vec![4, 2], code: 0x01, mid: 0x3141, options, payload: vec![] }
}

fn part_b_many(ctx: &Ctx, rep: &mut Report) {
    // B9: four, five and six options over small (delta, length) alphabets - complete products
    {
        let d4: [usize; 4] = [0, 1, 13, 269];
        let l4: [usize; 4] = [0, 1, 13, 269];
        let radices = [16u64, 16, 16, 16, 2];
        let n = product(&radices);
        ctx.family(rep, "B9-four-options", "four options: (delta, length) in {0,1,13,269}^2 for every option (complete product) x payload {none, [FF 00]}", n, true, |i, rep| {
            let d = decode(i, &radices);
            let mut num = 0usize;
            let mut opts = Vec::new();
            for k in 0..4 {
                num += d4[(d[k] / 4) as usize];
                opts.push((num as u32, pattern(l4[(d[k] % 4) as usize], k as u8 + 3)));
            }
            let m = RefMsg { version: 1, mtype: 0, token: vec![5, 6, 7], code: 0x02, mid: 0x0A0B, options: opts, payload: if d[4] == 1 { vec![0xFF, 0] } else { vec![] } };
            run_case("B9-four-options", i, n, &m, ctx, rep);
        });
        let radices = [6u64, 6, 6, 6, 6, 6, 2];
        let n = product(&radices);
        let dl: [(usize, usize); 6] = [(0, 0), (0, 13), (1, 1), (13, 0), (13, 269), (269, 13)];
        ctx.family(rep, "B9-six-options", "six options, each (delta, length) over {(0,0),(0,13),(1,1),(13,0),(13,269),(269,13)} (complete product) x token {0, 8 bytes}", n, true, |i, rep| {
            let d = decode(i, &radices);
            let mut num = 0usize;
            let mut opts = Vec::new();
            for k in 0..6 {
                let (dd, ll) = dl[d[k] as usize];
                num += dd;
                opts.push((num as u32, pattern(ll, k as u8 + 9)));
            }
            let m = RefMsg { version: 1, mtype: 1, token: if d[6] == 1 { pattern(8, 2) } else { vec![] }, code: 0x45, mid: 7, options: opts, payload: vec![1] };
            run_case("B9-six-options", i, n, &m, ctx, rep);
        });
    }
    // B11: n instances of one option number whose value sizes add up to every total 0..=300 (windows around any
    // internal buffer size a codec might use), and the same with n distinct numbers
    {
        let ns: [usize; 7] = [1, 2, 3, 5, 6, 10, 16];
        let radices = [ns.len() as u64, 301, 2];
        let n = product(&radices);
        ctx.family(rep, "B11-value-size-totals", "n in {1,2,3,5,6,10,16} option instances (all the same number / consecutive numbers) whose value lengths add up to every total 0..=300", n, true, |i, rep| {
            let d = decode(i, &radices);
            let k = ns[d[0] as usize];
            let total = d[1] as usize;
            let m = many_instances(k, total, d[2] == 1);
            run_case("B11-value-size-totals", i, n, &m, ctx, rep);
        });
    }
    // B12: every pair of registered option numbers (plus a few unregistered ones) in one message
    {
        let mut nums: Vec<u32> = refmodel::registries::OPTIONS.iter().map(|o| o.0 as u32).collect();
        nums.extend([0u32, 2, 13, 269, 2049, 65535]);
        nums.sort();
        nums.dedup();
        let k = nums.len() as u64;
        let radices = [k, k, 3, 2];
        let n = product(&radices);
        ctx.family(rep, "B12-registered-number-pairs", "every ordered pair (a <= b) of the registered option numbers and {0,2,13,269,2049,65535} in one message x value length {0,1,13} x {one value each, the first number twice}", n, true, |i, rep| {
            let d = decode(i, &radices);
            let (a, b) = (nums[d[0] as usize], nums[d[1] as usize]);
            if a > b {
                rep.count("skipped-unordered-pair");
                return;
            }
            let len = [0usize, 1, 13][d[2] as usize];
            let mut options = vec![(a, pattern(len, 1))];
            if d[3] == 1 {
                options.push((a, pattern(len + 1, 2)));
            }
            options.push((b, pattern(len, 3)));
            let m = RefMsg { version: 1, mtype: 0, token: vec![0x11, 0x22], code: 0x01, mid: (a as u16) ^ (b as u16), options, payload: vec![0xFF] };
            run_case("B12-registered-number-pairs", i, n, &m, ctx, rep);
        });
    }
    // B13: adjacent option instances whose value lengths coincide modulo 2^8 / 2^16
    {
        let adds: [usize; 5] = [256, 512, 65280, 65536, 0];
        let radices = [301u64, adds.len() as u64, 2, 3, 2];
        let n = product(&radices);
        ctx.family(rep, "B13-adjacent-lengths-equal-modulo-256-65536", "two (three) adjacent option instances of lengths l and l+{256,512,65280,65536,0} (l = 0..=300, both orders, second option number first+{0,1,13}, optionally a third instance of length l)", n, true, |i, rep| {
            let d = decode(i, &radices);
            let l = d[0] as usize;
            let l2 = l + adds[d[1] as usize];
            if l2 > refmodel::codec::MAX_EXT {
                rep.count("skipped-length-not-encodable");
                return;
            }
            let (a, b) = if d[2] == 0 { (l, l2) } else { (l2, l) };
            let second = 11 + [0u32, 1, 13][d[3] as usize];
            let mut options = vec![(11u32, pattern(a, 0x21)), (second, pattern(b, 0x43))];
            if d[4] == 1 {
                options.push((second, pattern(l, 0x65)));
            }
            let m = RefMsg { version: 1, mtype: 0, token: vec![7], code: 2, mid: 0x1234, options, payload: vec![] };
            run_case("B13-adjacent-lengths-equal-modulo-256-65536", i, n, &m, ctx, rep);
        });
    }
    // B10: byte values - every byte value as the content of option values, token and payload
    {
        let radices = [256u64, 4, 3];
        let n = product(&radices);
        let lens = [1usize, 2, 13, 14];
        ctx.family(rep, "B10-byte-values", "every byte value b: an option value / the token / the payload consisting only of b, lengths {1,2,13,14} (token: up to 8), next to a second option and a payload", n, true, |i, rep| {
            let d = decode(i, &radices);
            let b = d[0] as u8;
            let len = lens[d[1] as usize];
            let fill = vec![b; len];
            let m = match d[2] {
                0 => RefMsg { version: 1, mtype: 0, token: vec![1], code: 1, mid: b as u16 * 257, options: vec![(11, fill), (12, vec![b])], payload: vec![2] },
                1 => RefMsg { version: 1, mtype: 0, token: vec![b; len.min(8)], code: 1, mid: 3, options: vec![(11, vec![9])], payload: vec![] },
                _ => RefMsg { version: 1, mtype: 0, token: vec![], code: 0x45, mid: 3, options: vec![(b as u32, vec![])], payload: fill },
            };
            run_case("B10-byte-values", i, n, &m, ctx, rep);
        });
    }
}

pub fn run(ctx: &Ctx, rep: &mut Report) {
    part_a(ctx, rep);
    part_b_payloads(ctx, rep);
    part_b_many(ctx, rep);
    part_b(ctx, rep);
    rep.note("max_size", Packet::MAX_SIZE);
    rep.assume("refmodel::codec (RFC 7252 section 3 encoder/parser written from the RFC text) is the trusted reference");
    rep.assume("version != 1 and 0.00 messages with content: decode clause is 'if accepted, equal' (C03 permits a stricter parser)");
}
