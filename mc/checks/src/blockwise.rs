//! Shared harness for the block-wise properties (C08-C12, C20): a server built
//! around the real `BlockHandler`, driven only through *encoded bytes*, and an
//! independent client that builds requests with the reference encoder and reads
//! replies with the reference parser.

use crate::common::to_ref;
use coap_lite::block_handler::{BlockHandler, BlockHandlerConfig};
use coap_lite::{CoapOption, CoapRequest, MessageClass, Packet};
use mccore::{guard, Panicked};
use refmodel::block as rb;
use refmodel::codec::{self, RefMsg, Verdict};
use std::cell::Cell;
use std::hash::{Hash, Hasher};
use std::time::Duration;

// ---------------------------------------------------------------------------
// Endpoint type with a live-instance counter (each physical cache entry holds
// clones of its key, so "entries reclaimed" is observable without a hook).
// ---------------------------------------------------------------------------
thread_local! {
    static LIVE_EPS: Cell<i64> = const { Cell::new(0) };
}

#[derive(Debug)]
pub struct Ep(pub u32);

impl Ep {
    pub fn new(id: u32) -> Ep {
        LIVE_EPS.with(|c| c.set(c.get() + 1));
        Ep(id)
    }
    pub fn live() -> i64 {
        LIVE_EPS.with(|c| c.get())
    }
}
impl Clone for Ep {
    fn clone(&self) -> Ep {
        Ep::new(self.0)
    }
}
impl Drop for Ep {
    fn drop(&mut self) {
        LIVE_EPS.with(|c| c.set(c.get() - 1));
    }
}
impl PartialEq for Ep {
    fn eq(&self, o: &Ep) -> bool {
        self.0 == o.0
    }
}
impl Eq for Ep {}
impl PartialOrd for Ep {
    fn partial_cmp(&self, o: &Ep) -> Option<std::cmp::Ordering> {
        Some(self.cmp(o))
    }
}
impl Ord for Ep {
    fn cmp(&self, o: &Ep) -> std::cmp::Ordering {
        self.0.cmp(&o.0)
    }
}
impl Hash for Ep {
    fn hash<H: Hasher>(&self, h: &mut H) {
        self.0.hash(h)
    }
}
// (not asked for by the crate today; lets an implementation that logs endpoints build against this driver)
impl std::fmt::Display for Ep {
    fn fmt(&self, f: &mut std::fmt::Formatter<'_>) -> std::fmt::Result {
        write!(f, "peer")
    }
}

// ---------------------------------------------------------------------------
// Fake clock (feature `fakeclock`): thread-local milliseconds owned by the harness.
// ---------------------------------------------------------------------------
#[cfg(feature = "fakeclock")]
pub mod clock {
    pub fn reset() {
        sn_fake_clock::FakeClock::set_time(0);
    }
    pub fn advance(ms: u64) {
        sn_fake_clock::FakeClock::advance_time(ms);
    }
    pub fn now() -> u64 {
        sn_fake_clock::FakeClock::time()
    }
    pub const FAKE: bool = true;
}
#[cfg(not(feature = "fakeclock"))]
pub mod clock {
    pub fn reset() {}
    pub fn advance(ms: u64) {
        std::thread::sleep(std::time::Duration::from_millis(ms));
    }
    pub fn now() -> u64 {
        0
    }
    pub const FAKE: bool = false;
}

// ---------------------------------------------------------------------------
// Application reply and the server
// ---------------------------------------------------------------------------
#[derive(Clone, Debug, Default)]
pub struct AppReply {
    pub code: u8,
    pub options: Vec<(u16, Vec<u8>)>,
    pub payload: Vec<u8>,
}

#[derive(Clone, Debug)]
pub struct AppCall {
    pub ep: u32,
    /// The request as the application saw it (after the handler's Block1 reassembly).
    pub request: RefMsg,
}

#[derive(Clone, Debug, PartialEq)]
pub enum Stage {
    InterceptRequest,
    Application,
    InterceptResponse,
    ApplyError,
    Encode,
}

#[derive(Clone, Debug)]
pub struct Exchange {
    /// Encoded reply (unlimited encoder), if a response was prepared and could be encoded.
    pub reply: Option<Vec<u8>>,
    pub app_invoked: bool,
    /// intercept_request returned Ok(true)
    pub handled_by_handler: bool,
    /// intercept_response returned Ok(true)
    pub response_fragmented: Option<bool>,
    /// A HandlingError was returned: (stage, code byte if any, message, apply_from_error result)
    pub error: Option<(Stage, Option<u8>, String, bool)>,
    pub panic: Option<(Stage, Panicked)>,
    pub no_response_prepared: bool,
    pub request_rejected_by_parser: bool,
}

pub struct Pending {
    request: CoapRequest<Ep>,
    x: Exchange,
    pub call: AppCall,
}

pub enum Begun {
    Done(Exchange),
    NeedsApp(Box<Pending>),
}

pub struct Server {
    pub handler: BlockHandler<Ep>,
    pub budget: usize,
    pub app_calls: Vec<AppCall>,
    /// Rolling fingerprint of every datagram in and out: stands in for the cache snapshot as a search key when the
    /// hooks are unavailable (no state merging then, only depth-bounded enumeration).
    pub trace: u64,
}

/// Are the cfg(coap_lite_verif) hooks of the crate available to this build?
pub const HOOKS: bool = cfg!(not(feature = "nohooks"));

fn mix(h: u64, bytes: &[u8]) -> u64 {
    let mut h = h ^ 0x9E37_79B9_7F4A_7C15;
    for b in bytes {
        h = (h ^ *b as u64).wrapping_mul(0x0000_0100_0000_01B3);
    }
    h.rotate_left(17) ^ bytes.len() as u64
}

impl Server {
    pub fn new(budget: usize, expiry: Duration) -> Server {
        Server {
            // (struct update syntax: a configuration that grows another field keeps this driver compiling)
            #[allow(clippy::needless_update)]
            handler: BlockHandler::new(BlockHandlerConfig { max_total_message_size: budget, cache_expiry_duration: expiry, ..Default::default() }),
            budget,
            app_calls: Vec::new(),
            trace: 0,
        }
    }

    /// One datagram in, at most one datagram out, exactly as a server built on the crate would do it.
    pub fn exchange(&mut self, ep: u32, req_bytes: &[u8], app: &dyn Fn(&AppCall) -> AppReply) -> Exchange {
        self.trace = mix(mix(self.trace, &ep.to_be_bytes()), req_bytes);
        let x = match self.begin(ep, req_bytes) {
            Begun::Done(x) => x,
            Begun::NeedsApp(p) => {
                let reply = app(&p.call);
                self.finish(*p, reply)
            }
        };
        self.trace = mix(self.trace, x.reply.as_deref().unwrap_or(&[0xEE]));
        x
    }

    /// First half of an exchange: parse + intercept_request. Either the handler answered (or failed) itself, or
    /// the request is handed to the application; its reply comes back through `finish` - possibly after other
    /// requests were begun (a server that processes requests concurrently).
    pub fn begin(&mut self, ep: u32, req_bytes: &[u8]) -> Begun {
        let mut x = Exchange {
            reply: None,
            app_invoked: false,
            handled_by_handler: false,
            response_fragmented: None,
            error: None,
            panic: None,
            no_response_prepared: false,
            request_rejected_by_parser: false,
        };
        let packet = match guard(|| Packet::from_bytes(req_bytes)) {
            Ok(Ok(p)) => p,
            _ => {
                x.request_rejected_by_parser = true;
                return Begun::Done(x);
            }
        };
        let mut request = CoapRequest::from_packet(packet, Ep::new(ep));
        let handler = &mut self.handler;
        let r = guard(|| handler.intercept_request(&mut request));
        match r {
            Err(pn) => {
                x.panic = Some((Stage::InterceptRequest, pn));
                Begun::Done(x)
            }
            Ok(Ok(true)) => {
                x.handled_by_handler = true;
                Begun::Done(Self::conclude(request, x, None))
            }
            Ok(Ok(false)) => {
                x.app_invoked = true;
                let call = AppCall { ep, request: to_ref(&request.message) };
                self.app_calls.push(call.clone());
                Begun::NeedsApp(Box::new(Pending { request, x, call }))
            }
            Ok(Err(e)) => Begun::Done(Self::conclude(request, x, Some((Stage::InterceptRequest, e)))),
        }
    }

    /// Second half: the application's reply is put into the prepared response, then intercept_response.
    pub fn finish(&mut self, p: Pending, reply: AppReply) -> Exchange {
        let Pending { mut request, mut x, .. } = p;
        if let Some(resp) = request.response.as_mut() {
            resp.message.header.code = MessageClass::from(reply.code);
            for (n, v) in &reply.options {
                resp.message.add_option(CoapOption::from(*n), v.clone());
            }
            resp.message.payload = reply.payload.clone();
        }
        let handler = &mut self.handler;
        let mut err = None;
        match guard(|| handler.intercept_response(&mut request)) {
            Err(pn) => {
                x.panic = Some((Stage::InterceptResponse, pn));
                return x;
            }
            Ok(Ok(b)) => x.response_fragmented = Some(b),
            Ok(Err(e)) => err = Some((Stage::InterceptResponse, e)),
        }
        Self::conclude(request, x, err)
    }

    fn conclude(mut request: CoapRequest<Ep>, mut x: Exchange, err: Option<(Stage, coap_lite::error::HandlingError)>) -> Exchange {
        if let Some((stage, e)) = err {
            let code = e.code.map(|c| u8::from(MessageClass::Response(c)));
            let msg = e.message.clone();
            match guard(|| request.apply_from_error(e)) {
                Err(pn) => {
                    x.panic = Some((Stage::ApplyError, pn));
                    return x;
                }
                Ok(applied) => x.error = Some((stage, code, msg, applied)),
            }
        }
        match request.response.as_ref() {
            None => x.no_response_prepared = true,
            Some(resp) => match guard(|| resp.message.to_bytes_unlimited()) {
                Err(pn) => x.panic = Some((Stage::Encode, pn)),
                Ok(Ok(b)) => x.reply = Some(b),
                Ok(Err(_)) => {}
            },
        }
        x
    }

    /// Without the hooks (feature `nohooks`) nothing of the cache is visible.
    #[cfg(feature = "nohooks")]
    pub fn snapshot(&self) -> Vec<(u8, Vec<String>, Option<u32>, Option<(u16, bool, u8)>, Option<Vec<u8>>, Option<Vec<u8>>)> {
        Vec::new()
    }

    /// Canonical snapshot of the handler's cache (hook), sorted by key.
    #[cfg(not(feature = "nohooks"))]
    pub fn snapshot(&self) -> Vec<(u8, Vec<String>, Option<u32>, Option<(u16, bool, u8)>, Option<Vec<u8>>, Option<Vec<u8>>)> {
        let mut v: Vec<_> = self
            .handler
            .verif_snapshot()
            .into_iter()
            .map(|e| {
                (
                    e.method_code,
                    e.path,
                    e.requester.map(|r| r.0),
                    e.last_request_block2.map(|b| (b.num, b.more, b.size_exponent)),
                    e.cached_response,
                    e.cached_request_payload,
                )
            })
            .collect();
        v.sort();
        v
    }
}

// ---------------------------------------------------------------------------
// Client side helpers (reference codec only)
// ---------------------------------------------------------------------------

/// Builds a request datagram with the reference encoder.
#[allow(clippy::too_many_arguments)]
pub fn request_bytes(
    mtype: u8,
    method: u8,
    mid: u16,
    token: &[u8],
    path: &[&str],
    extra: &[(u32, Vec<u8>)],
    block1: Option<(u32, bool, u8)>,
    block2: Option<(u32, bool, u8)>,
    payload: &[u8],
) -> Vec<u8> {
    let mut options: Vec<(u32, Vec<u8>)> = Vec::new();
    for seg in path {
        options.push((11, seg.as_bytes().to_vec()));
    }
    options.extend(extra.iter().cloned());
    if let Some((n, m, s)) = block2 {
        options.push((23, rb::enc(n, m, s)));
    }
    if let Some((n, m, s)) = block1 {
        options.push((27, rb::enc(n, m, s)));
    }
    options.sort_by_key(|o| o.0); // stable: keeps per-number order
    let m = RefMsg { version: 1, mtype, token: token.to_vec(), code: method, mid, options, payload: payload.to_vec() };
    codec::enc(&m).expect("request encodable")
}

/// Reads a reply datagram with the reference parser.
pub fn parse_reply(b: &[u8]) -> Option<RefMsg> {
    match codec::parse(b) {
        Verdict::MustAccept(m) => Some(m),
        Verdict::Either(m, _) => Some(m),
        Verdict::MustReject(_) => None,
    }
}

pub fn block_opt(m: &RefMsg, number: u32) -> Option<(u32, bool, u8)> {
    m.options.iter().find(|o| o.0 == number).and_then(|o| rb::dec(&o.1))
}

pub fn opts_without(m: &RefMsg, numbers: &[u32]) -> Vec<(u32, Vec<u8>)> {
    m.options.iter().filter(|o| !numbers.contains(&o.0)).cloned().collect()
}

/// Encoded size of a reply as the application left it, without payload (no marker).
pub fn reply_overhead(token_len: usize, options: &[(u16, Vec<u8>)]) -> usize {
    let mut opts: Vec<(u32, Vec<u8>)> = options.iter().map(|o| (o.0 as u32, o.1.clone())).collect();
    opts.sort_by_key(|o| o.0);
    let m = RefMsg { version: 1, mtype: 2, token: vec![0; token_len], code: 0x45, mid: 0, options: opts, payload: vec![] };
    codec::enc(&m).unwrap().len()
}

pub fn body(len: usize, salt: u8) -> Vec<u8> {
    (0..len).map(|i| ((i * 7 + i / 251) as u8) ^ salt).collect()
}
