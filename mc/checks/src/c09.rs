//! C09 — Block1: uploaded blocks are reassembled into exactly the body sent.
//!
//! Every case is a complete upload through the real handler via encoded bytes;
//! duplicates of each block and an abandoned predecessor upload are the deviations (E3).

use crate::blockwise::*;
use mccore::{decode, product, viol, Ctx, Json, Report};
use refmodel::block as rb;
use std::time::Duration;

pub struct Case {
    pub szx: u8,
    pub body_len: usize,
    /// budget = largest request overhead + block size + 32 + slack, or absolute when `abs_budget`
    pub slack: usize,
    pub abs_budget: Option<usize>,
    /// deliveries per block
    pub dups: Vec<u8>,
    /// abandoned predecessor: number of blocks, and whether it uses the next larger block size
    pub pred_blocks: usize,
    pub pred_bigger: bool,
    /// message id of the first request of the upload (ids count up from here, wrapping)
    pub mid_base: u16,
    /// request code of the upload (0.03 PUT in U1/U2; U4 varies it)
    pub method: u8,
    /// message type of every request of the upload (0 CON in U1/U2; U4 also runs NON)
    pub mtype: u8,
}

fn case_json(c: &Case, budget: usize) -> Json {
    Json::obj()
        .set("szx", c.szx)
        .set("block_size", rb::size(c.szx))
        .set("body_len", c.body_len)
        .set("budget", budget)
        .set("deliveries_per_block", c.dups.iter().map(|d| *d as u64).collect::<Vec<_>>())
        .set("first_message_id", c.mid_base)
        .set("method", refmodel::registries::dotted(c.method))
        .set("request_type", if c.mtype == 0 { "CON" } else { "NON" })
        .set("abandoned_predecessor_blocks", c.pred_blocks)
        .set("predecessor_block_size", rb::size(if c.pred_bigger { c.szx + 1 } else { c.szx }))
}

fn put(mid: u16, block1: Option<(u32, bool, u8)>, payload: &[u8]) -> Vec<u8> {
    req(0x03, 0, mid, block1, payload)
}

fn req(method: u8, mtype: u8, mid: u16, block1: Option<(u32, bool, u8)>, payload: &[u8]) -> Vec<u8> {
    let token = [0xC0, (mid >> 8) as u8, mid as u8];
    request_bytes(mtype, method, mid, &token, &["up", "load"], &[(12, vec![42])], block1, None, payload)
}

/// PUT first (the method of U1/U2), then the other methods that carry a body: POST, FETCH, PATCH, iPATCH.
const METHODS: [u8; 5] = [0x03, 0x02, 0x05, 0x06, 0x07];

pub fn nblocks(len: usize, bs: usize) -> usize {
    ((len + bs - 1) / bs).max(1)
}

fn budget_of(c: &Case) -> usize {
    if let Some(b) = c.abs_budget {
        return b;
    }
    let bs = rb::size(c.szx);
    let n = nblocks(c.body_len, bs);
    // largest non-payload size of any request of this upload (the Block1 value grows with the number)
    let ovh = (0..n).map(|k| put(1, Some((k as u32, true, c.szx)), &[]).len()).max().unwrap();
    ovh + bs + 32 + c.slack
}

pub fn upload(c: &Case, rep: &mut Report) -> Result<&'static str, (String, String)> {
    let bs = rb::size(c.szx);
    let the_body = body(c.body_len, 0x42);
    let budget = budget_of(c);
    let mut srv = Server::new(budget, Duration::from_secs(3600));
    clock::reset();
    let app = |_call: &AppCall| -> AppReply { AppReply { code: 0x44, options: vec![], payload: vec![] } };
    let mut mid = c.mid_base.wrapping_sub(1).wrapping_sub(c.pred_blocks as u16);
    // ---- abandoned predecessor (non-final blocks of a different body)
    if c.pred_blocks > 0 {
        let pszx = if c.pred_bigger { c.szx + 1 } else { c.szx };
        let pbs = rb::size(pszx);
        for k in 0..c.pred_blocks {
            mid = mid.wrapping_add(1);
            let x = srv.exchange(1, &req(c.method, c.mtype, mid, Some((k as u32, true, pszx)), &vec![0xEE; pbs]), &app);
            if let Some((stage, pn)) = &x.panic {
                return Err((format!("C09/panic@{}", pn.site()), format!("{:?} (predecessor block {}): {}", stage, k, pn.message)));
            }
        }
    }
    let calls_before = srv.app_calls.len();
    let n = nblocks(c.body_len, bs);
    let mut delivered_final = 0usize;
    for k in 0..n {
        let chunk = &the_body[(k * bs).min(c.body_len)..((k + 1) * bs).min(c.body_len)];
        let more = k + 1 < n;
        mid = mid.wrapping_add(1);
        let bytes = req(c.method, c.mtype, mid, Some((k as u32, more, c.szx)), chunk);
        for rep_no in 0..c.dups[k.min(c.dups.len() - 1)] {
            let before = srv.app_calls.len();
            let x = srv.exchange(1, &bytes, &app);
            rep.visit(&srv.snapshot());
            let redelivery_of_final = !more && rep_no > 0 && n >= 2;
            let fail = |sig: &str, what: String| -> Result<&'static str, (String, String)> {
                if redelivery_of_final {
                    Err(("C09/final-block-redelivered".to_string(), format!("delivery {} of the final block: {}", rep_no + 1, what)))
                } else {
                    Err((sig.to_string(), format!("block {} delivery {}: {}", k, rep_no + 1, what)))
                }
            };
            if let Some((stage, pn)) = &x.panic {
                return fail(&format!("C09/panic@{}", pn.site()), format!("{:?}: {}", stage, pn.message));
            }
            if redelivery_of_final {
                // a re-delivered final block must not hand the application anything (an error reply or a
                // repeated acknowledgement are both fine)
                if srv.app_calls.len() != before {
                    let seen = &srv.app_calls.last().unwrap().request.payload;
                    return fail(
                        "",
                        format!(
                            "the application was invoked again with a body of {} bytes ({}equal to the body sent)",
                            seen.len(),
                            if seen == &the_body { "" } else { "not " }
                        ),
                    );
                }
                continue;
            }
            let reply = match x.reply.as_deref().and_then(parse_reply) {
                Some(r) => r,
                None => return fail("C09/no-reply", "no decodable reply".into()),
            };
            if let Some((stage, code, msg, _)) = &x.error {
                return fail("C09/upload-fails-with-error", format!("{:?} returned {:?} {:?}", stage, code.map(refmodel::registries::dotted), msg));
            }
            let b1 = block_opt(&reply, 27);
            if more {
                if x.app_invoked || srv.app_calls.len() != before {
                    return fail("C09/non-final-block-reached-application", "a non-final block was passed to the application".into());
                }
                if reply.code != 0x5F {
                    return fail("C09/non-final-block-not-continue", format!("answered {} instead of 2.31", refmodel::registries::dotted(reply.code)));
                }
                match b1 {
                    Some((num, _, szx)) if num == k as u32 && szx <= c.szx => {}
                    other => return fail("C09/continue-block1-echo", format!("2.31 carries Block1 {:?}, expected number {} and SZX <= {}", other, k, c.szx)),
                }
            } else {
                // final block
                if n == 1 && rep_no > 0 {
                    // a one-block upload re-sent is indistinguishable from a new request; only the body is checked
                    if srv.app_calls.len() == before + 1 && srv.app_calls.last().unwrap().request.payload != the_body {
                        return fail("C09/application-body-differs", "re-sent single-block upload delivered a different body".into());
                    }
                    continue;
                }
                delivered_final += 1;
                if srv.app_calls.len() != before + 1 {
                    return fail("C09/final-block-did-not-reach-application", format!("{} application calls for the final block", srv.app_calls.len() - before));
                }
                let seen = &srv.app_calls.last().unwrap().request.payload;
                if seen != &the_body {
                    let at = seen.iter().zip(the_body.iter()).position(|(a, b)| a != b).unwrap_or(seen.len().min(the_body.len()));
                    return fail(
                        if c.pred_blocks > 0 && seen.len() > the_body.len() { "C09/stale-bytes-from-abandoned-upload" } else { "C09/application-body-differs" },
                        format!("the application received {} bytes, the body sent has {} bytes, first difference at offset {}", seen.len(), the_body.len(), at),
                    );
                }
                if reply.code != 0x44 {
                    return fail("C09/final-response-code", format!("final response has code {}", refmodel::registries::dotted(reply.code)));
                }
                match b1 {
                    Some((num, _, szx)) if num == k as u32 && szx <= c.szx => {}
                    other => return fail("C09/final-response-block1", format!("final response carries Block1 {:?}, expected number {} and SZX <= {}", other, k, c.szx)),
                }
            }
        }
    }
    let _ = delivered_final;
    let total_calls = srv.app_calls.len() - calls_before;
    let allowed_extra: usize = if n == 1 { (c.dups[0] - 1) as usize } else { 0 };
    if total_calls > 1 + allowed_extra {
        return Err(("C09/application-invoked-more-than-once".into(), format!("{} application calls for one upload", total_calls)));
    }
    Ok(if n == 1 { "single-block-upload" } else { "multi-block-upload" })
}

/// Duplicate vectors for an upload of n blocks.
fn dup_vectors(n: usize, thorough: bool) -> Vec<Vec<u8>> {
    let mut v: Vec<Vec<u8>> = Vec::new();
    if n <= 4 || (thorough && n <= 5) {
        let base: u64 = 3;
        for i in 0..base.pow(n as u32) {
            v.push(decode(i, &vec![base; n]).iter().map(|d| *d as u8 + 1).collect());
        }
        if !thorough {
            // a triple delivery of the first and of the last block
            let mut a = vec![1u8; n];
            a[0] = 3;
            v.push(a);
            let mut b = vec![1u8; n];
            b[n - 1] = 3;
            v.push(b);
        }
    } else {
        v.push(vec![1; n]);
        v.push(vec![2; n]);
        v.push(vec![3; n]);
        for pos in [0, n / 2, n - 2, n - 1] {
            let mut a = vec![1u8; n];
            a[pos] = 2;
            v.push(a);
        }
    }
    v
}

fn run_case(fam: &str, i: u64, n: u64, c: &Case, ctx: &Ctx, rep: &mut Report) {
    let budget = budget_of(c);
    match mccore::guard(|| {
        let mut local = Report::new();
        let r = upload(c, &mut local);
        (r, local)
    }) {
        Err(pn) => rep.violation(viol(fam, i, format!("MACHINERY-or-C09/harness-panic@{}", pn.site()), pn.message, case_json(c, budget))),
        Ok((r, local)) => {
            rep.transitions += local.transitions;
            rep.traces_validated += local.traces_validated;
            rep.state_set.extend(local.state_set);
            match r {
                Ok(class) => {
                    rep.count(class);
                    rep.bucket(&(class, c.szx, c.body_len % rb::size(c.szx) == 0, nblocks(c.body_len, rb::size(c.szx)).min(6), c.dups.iter().map(|d| *d as u32).sum::<u32>().min(12), c.pred_blocks, c.pred_bigger));
                }
                Err((sig, what)) => {
                    rep.count("violation");
                    rep.violation(viol(fam, i, sig, what, case_json(c, budget)));
                }
            }
        }
    }
    if ctx.want_sample(i, n) {
        rep.sample(Json::obj().set("family", fam).set("index", i).set("case", case_json(c, budget)));
    }
}

pub fn run(ctx: &Ctx, rep: &mut Report) {
    // ---- U1: small block sizes, every body length
    {
        // flatten (szx, body_len, dup vector) into a table
        let mut table: Vec<(u8, usize, Vec<u8>)> = Vec::new();
        let szxs: Vec<u8> = if ctx.thorough() { vec![0, 1, 2] } else { vec![0, 1] };
        for szx in szxs {
            let bs = rb::size(szx);
            let top = if ctx.thorough() { 4 * bs + 1 } else { 3 * bs + 1 };
            for len in 0..=top {
                for dv in dup_vectors(nblocks(len, bs), true) {
                    table.push((szx, len, dv));
                }
            }
        }
        let slacks: Vec<(usize, Option<usize>)> = vec![(0, None), (1, None), (100, None), (0, Some(1152))];
        let preds: Vec<(usize, bool)> = if ctx.thorough() {
            (0..=6).flat_map(|p| [(p, false), (p, true)]).filter(|x| !(x.0 == 0 && x.1)).collect()
        } else {
            vec![(0, false), (1, false), (3, false), (6, false), (2, true), (5, true)]
        };
        let radices = [table.len() as u64, slacks.len() as u64, preds.len() as u64];
        let n = product(&radices);
        ctx.family(
            rep,
            "U1-every-length-small-blocks",
            "first message id rotating over {0, 101, 65535, 65534} (ids count up and wrap); SZX 0 and 1 (thorough: 0..2) x every body length 0..=3*bs+1 (thorough: 4*bs+1) x duplicate vectors (every vector over {1,2,3} deliveries per block for <= 4 blocks (thorough: <= 5)) x budget {admits the block size with 32 bytes + 0/1/100 to spare, 1152} x abandoned predecessor upload of 0..6 blocks (same or next larger block size, distinct fill); each a complete upload",
            n,
            true,
            |i, rep| {
                let d = decode(i, &radices);
                let (szx, len, dv) = &table[d[0] as usize];
                let (slack, abs) = slacks[d[1] as usize];
                let (pb, bigger) = preds[d[2] as usize];
                let c = Case { szx: *szx, body_len: *len, slack, abs_budget: abs, dups: dv.clone(), pred_blocks: pb, pred_bigger: bigger, mid_base: [0u16, 101, 65535, 65534][(d[1] as usize + d[2] as usize) % 4], method: 3, mtype: 0 };
                run_case("U1-every-length-small-blocks", i, n, &c, ctx, rep);
            },
        );
    }
    // ---- U2: larger block sizes at boundary lengths
    {
        let mut table: Vec<(u8, usize, Vec<u8>)> = Vec::new();
        for szx in 2u8..=6 {
            let bs = rb::size(szx);
            let mut lens = vec![0, 1, bs - 1, bs, bs + 1, 2 * bs - 1, 2 * bs, 2 * bs + 1, 3 * bs + 1, 5000];
            if szx == 6 {
                lens.extend([70_000, 1_100_000, 2_200_000]); // beyond 64 KiB, 1 MiB and 2 MiB
            }
            lens.sort();
            lens.dedup();
            for len in lens {
                let nb = nblocks(len, bs);
                let mut dvs = vec![vec![1u8; nb], vec![2u8; nb]];
                let mut a = vec![1u8; nb];
                a[nb - 1] = 2;
                dvs.push(a);
                if nb >= 2 {
                    let mut b = vec![1u8; nb];
                    b[nb - 2] = 3;
                    dvs.push(b);
                }
                for dv in dvs {
                    table.push((szx, len, dv));
                }
            }
        }
        let slacks: Vec<(usize, Option<usize>)> = vec![(0, None), (1, None), (0, Some(1280))];
        let preds: Vec<(usize, bool)> = vec![(0, false), (1, false), (4, false), (6, false), (3, true)];
        let radices = [table.len() as u64, slacks.len() as u64, preds.len() as u64];
        let n = product(&radices);
        ctx.family(
            rep,
            "U2-boundary-lengths-large-blocks",
            "SZX 2..6 x body lengths {0,1,bs-1,bs,bs+1,2bs-1,2bs,2bs+1,3bs+1,5000; with 1024-byte blocks also 70000, 1.1 M, 2.2 M} x duplicate vectors {all once, all twice, final twice, last-but-one three times} x budgets {exact+0, +1, 1280} x abandoned predecessor {0,1,4,6 blocks same size; 3 blocks next larger size}",
            n,
            true,
            |i, rep| {
                let d = decode(i, &radices);
                let (szx, len, dv) = &table[d[0] as usize];
                let (slack, abs) = slacks[d[1] as usize];
                let (pb, bigger) = preds[d[2] as usize];
                if *len > 5000 && (dv.iter().any(|x| *x > 1) || pb > 0 || d[1] > 0) {
                    rep.count("skipped-large-body-only-once-without-predecessor");
                    return;
                }
                if bigger && *szx == 6 {
                    rep.count("skipped-no-larger-block-size");
                    return;
                }
                let c = Case { szx: *szx, body_len: *len, slack, abs_budget: abs, dups: dv.clone(), pred_blocks: pb, pred_bigger: bigger, mid_base: [0u16, 101, 65535][(d[1] as usize + d[2] as usize) % 3], method: 3, mtype: 0 };
                if let Some(b) = abs {
                    if b < budget_of(&Case { abs_budget: None, slack: 0, dups: dv.clone(), ..c }) {
                        rep.count("skipped-budget-does-not-admit-block-size");
                        return;
                    }
                }
                run_case("U2-boundary-lengths-large-blocks", i, n, &c, ctx, rep);
            },
        );
    }
    // ---- U4: the other methods that carry a body
    {
        let mut table: Vec<(u8, usize, Vec<u8>)> = Vec::new();
        for szx in [0u8, 2, 6] {
            let bs = rb::size(szx);
            for len in [0, 1, bs - 1, bs, bs + 1, 2 * bs, 2 * bs + 1, 3 * bs + 1] {
                let nb = nblocks(len, bs);
                table.push((szx, len, vec![1u8; nb]));
                table.push((szx, len, vec![2u8; nb]));
            }
        }
        let preds: [(usize, bool); 3] = [(0, false), (2, false), (1, true)];
        let slacks: [(usize, Option<usize>); 2] = [(0, None), (0, Some(1152))];
        let radices = [table.len() as u64, METHODS.len() as u64 - 1, preds.len() as u64, slacks.len() as u64, 2];
        let n = product(&radices);
        ctx.family(
            rep,
            "U4-other-methods",
            "uploads with POST, FETCH, PATCH and iPATCH, confirmable and non-confirmable: SZX {0,2,6} x body lengths {0,1,bs-1,bs,bs+1,2bs,2bs+1,3bs+1} x {every block once, every block twice} x abandoned predecessor {none, 2 blocks, 1 block of the next larger size} x budget {exact, 1152}",
            n,
            true,
            |i, rep| {
                let d = decode(i, &radices);
                let (szx, len, dv) = &table[d[0] as usize];
                let (pb, bigger) = preds[d[2] as usize];
                let (slack, abs) = slacks[d[3] as usize];
                if bigger && *szx == 6 {
                    rep.count("skipped-no-larger-block-size");
                    return;
                }
                let c = Case { szx: *szx, body_len: *len, slack, abs_budget: abs, dups: dv.clone(), pred_blocks: pb, pred_bigger: bigger, mid_base: 500, method: METHODS[1 + d[1] as usize], mtype: d[4] as u8 };
                run_case("U4-other-methods", i, n, &c, ctx, rep);
            },
        );
    }
    // ---- U3: a request too large for the budget without Block1 -> 4.13 with a size hint
    {
        let budgets: Vec<usize> = vec![48, 64, 100, 128, 300, 1152, 1280];
        let radices = [budgets.len() as u64, 41, METHODS.len() as u64];
        let n = product(&radices);
        ctx.family(
            rep,
            "U3-too-large-without-block1",
            "PUT / POST / FETCH / PATCH / iPATCH without Block1 whose encoded size is budget-20 .. budget+20 (every value) for budgets {48,64,100,128,300,1152,1280}: larger than the budget => 4.13 with a Block1 size hint, application not invoked",
            n,
            true,
            |i, rep| {
                let d = decode(i, &radices);
                let budget = budgets[d[0] as usize];
                let method = METHODS[d[2] as usize];
                let ovh = put(7, None, &[]).len();
                let total = budget as i64 - 20 + d[1] as i64;
                let plen = total - ovh as i64 - 1;
                if plen < 1 || budget < ovh + 28 {
                    rep.count("skipped-not-in-domain");
                    return;
                }
                let payload = body(plen as usize, 9);
                let bytes = req(method, 0, 7, None, &payload);
                let mut srv = Server::new(budget, Duration::from_secs(3600));
                let app = |_c: &AppCall| AppReply { code: 0x44, options: vec![], payload: vec![] };
                let x = srv.exchange(1, &bytes, &app);
                rep.visit(&srv.snapshot());
                let case = || Json::obj().set("budget", budget).set("request_size", bytes.len()).set("method", refmodel::registries::dotted(method));
                if let Some((stage, pn)) = &x.panic {
                    rep.violation(viol("U3-too-large-without-block1", i, format!("C09/panic@{}", pn.site()), format!("{:?}: {}", stage, pn.message), case()));
                    return;
                }
                let reply = x.reply.as_deref().and_then(parse_reply);
                let too_large = bytes.len() > budget;
                match (too_large, reply) {
                    (true, Some(r)) => {
                        let hint = block_opt(&r, 27);
                        let ok = r.code == 0x8D && !x.app_invoked && x.handled_by_handler && matches!(hint, Some((0, _, s)) if s <= 6);
                        if ok {
                            rep.count("too-large-answered-4.13");
                            rep.bucket(&("413", budget, hint.map(|h| h.2)));
                        } else {
                            rep.violation(viol(
                                "U3-too-large-without-block1",
                                i,
                                "C09/too-large-request-not-answered-4.13",
                                format!("request of {} bytes at budget {}: code {}, Block1 {:?}, application invoked: {}", bytes.len(), budget, refmodel::registries::dotted(r.code), hint, x.app_invoked),
                                case(),
                            ));
                        }
                    }
                    (true, None) => rep.violation(viol("U3-too-large-without-block1", i, "C09/no-reply", "no reply to an oversize request", case())),
                    (false, _) => {
                        rep.count(if x.app_invoked { "fits-processed" } else { "fits-but-conservatively-4.13" });
                    }
                }
            },
        );
    }
    rep.assume("budgets admit the client's block size (largest request overhead + block size + 32 + slack), as the quantifier states, so the Block1 number is echoed unchanged");
    rep.assume("a re-sent one-block upload (num 0, more clear) is indistinguishable from a new request and may reach the application again with the same complete body");
    rep.assume("states = distinct handler cache snapshots (hook) after an exchange; transitions = exchanges of the uploads under test");
}
