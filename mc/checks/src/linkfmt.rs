//! C16 — writer output parses back to the same content.
//! C17 — the parser is total and its two unquoting paths agree.
//! C18 — the writer reports every sink failure and writes nothing after it.

use coap_lite::link_format::{LinkFormatParser, LinkFormatWrite, Unquote};
use mccore::{decode, guard, product, viol, Ctx, Json, Report};
use std::fmt::Write;

// ---------------------------------------------------------------------------
// document model
// ---------------------------------------------------------------------------

#[derive(Clone, Debug, PartialEq)]
pub enum Val {
    Attr(String),
    Quoted(String),
    U32(u32),
    U16(u16),
}

impl Val {
    fn text(&self) -> String {
        match self {
            Val::Attr(s) | Val::Quoted(s) => s.clone(),
            Val::U32(n) => n.to_string(),
            Val::U16(n) => n.to_string(),
        }
    }
}

#[derive(Clone, Debug, PartialEq)]
pub struct Link {
    pub target: String,
    pub attrs: Vec<(String, Val)>,
}

pub type Doc = Vec<Link>;

fn doc_json(d: &Doc, newlines: bool) -> Json {
    Json::obj().set("newlines", newlines).set(
        "links",
        Json::Arr(
            d.iter()
                .map(|l| {
                    Json::obj().set("target", l.target.as_str()).set(
                        "attrs",
                        Json::Arr(l.attrs.iter().map(|(k, v)| Json::obj().set("key", k.as_str()).set("value", format!("{:?}", v))).collect()),
                    )
                })
                .collect(),
        ),
    )
}

/// Drives the real writer over `w`. Returns the result of every `finish()` in call order
/// (one per link, then the document's).
fn write_doc<W: Write>(w: &mut W, doc: &Doc, newlines: bool) -> Vec<Result<(), std::fmt::Error>> {
    let mut results = Vec::new();
    let mut lf = LinkFormatWrite::new(w);
    lf.set_add_newlines(newlines);
    for l in doc {
        let mut aw = lf.link(&l.target);
        for (k, v) in &l.attrs {
            aw = match v {
                Val::Attr(s) => aw.attr(k, s),
                Val::Quoted(s) => aw.attr_quoted(k, s),
                Val::U32(n) => aw.attr_u32(k, *n),
                Val::U16(n) => aw.attr_u16(k, *n),
            };
        }
        results.push(aw.finish());
    }
    results.push(lf.finish());
    results
}

type Parsed = Result<Vec<(String, Vec<(String, String)>)>, String>;

fn parse_doc(s: &str) -> Parsed {
    let mut out = Vec::new();
    let cap = s.len() + 2;
    let mut n = 0;
    for item in LinkFormatParser::new(s) {
        n += 1;
        if n > cap {
            return Err("link iterator did not terminate".into());
        }
        match item {
            Err(e) => return Err(format!("{:?}", e)),
            Ok((link, attrs)) => {
                let mut av = Vec::new();
                let mut m = 0;
                for (k, v) in attrs {
                    m += 1;
                    if m > cap {
                        return Err("attribute iterator did not terminate".into());
                    }
                    av.push((k.to_string(), v.to_string()));
                }
                out.push((link.to_string(), av));
            }
        }
    }
    Ok(out)
}

const KEYS: [&str; 4] = ["k", "rt", "title*", "x-y"];

fn c16_case(fam: &str, i: u64, n: u64, doc: &Doc, newlines: bool, ctx: &Ctx, rep: &mut Report) {
    let r = guard(|| {
        let mut out = String::new();
        let results = write_doc(&mut out, doc, newlines);
        let parsed = parse_doc(&out);
        (out, results, parsed)
    });
    let case = || doc_json(doc, newlines);
    match r {
        Err(pn) => rep.violation(viol(fam, i, format!("C16/panic@{}", pn.site()), pn.message, case())),
        Ok((out, results, parsed)) => {
            if results.iter().any(|r| r.is_err()) {
                rep.violation(viol(fam, i, "C16/writer-error-on-string-sink", "finish() reported an error on a String sink", case().set("output", out.as_str())));
                return;
            }
            let expect: Vec<(String, Vec<(String, String)>)> =
                doc.iter().map(|l| (l.target.clone(), l.attrs.iter().map(|(k, v)| (k.clone(), v.text())).collect())).collect();
            match parsed {
                Ok(p) if p == expect => {
                    rep.count("parsed-back-equal");
                    rep.bucket(&(
                        doc.len(),
                        doc.iter().map(|l| l.attrs.len()).collect::<Vec<_>>(),
                        doc.iter()
                            .flat_map(|l| l.attrs.iter())
                            .map(|(_, v)| {
                                let t = v.text();
                                (t.contains('"'), t.contains('\\'), t.contains(','), t.contains(';'), matches!(v, Val::Quoted(_)))
                            })
                            .collect::<Vec<_>>(),
                        newlines,
                    ));
                }
                Ok(p) => {
                    let what = if p.len() != expect.len() {
                        format!("{} links parsed, {} written", p.len(), expect.len())
                    } else {
                        let mut w = String::from("content differs");
                        for (a, b) in p.iter().zip(expect.iter()) {
                            if a.0 != b.0 {
                                w = format!("target {:?} parsed as {:?}", b.0, a.0);
                                break;
                            }
                            if a.1 != b.1 {
                                w = format!("attributes of {:?}: written {:?}, parsed {:?}", b.0, b.1, a.1);
                                break;
                            }
                        }
                        w
                    };
                    rep.violation(viol(fam, i, "C16/parse-back-differs", what, case().set("output", out.as_str())));
                }
                Err(e) => rep.violation(viol(fam, i, "C16/parse-back-error", format!("parser reported {} on the writer's output", e), case().set("output", out.as_str()))),
            }
            if ctx.want_sample(i, n) {
                rep.sample(Json::obj().set("family", fam).set("index", i).set("document", case()).set("output", out.as_str()));
            }
        }
    }
}

const C16_SYMS: [&str; 13] = ["\"", "\\", ",", ";", "<", ">", " ", "\n", "=", "a", "1", "é", "😁"];
const NASTY: [&str; 11] = ["", "a", "a b", "\"", "\\", "\\\"", ",;", "<>", "=\n", "é😁", "\"a\\"];
const TARGETS: [&str; 8] = ["", "/a", "a b", "<", ",", ";", "\"", "é"];

fn attr_choice(c: u64, pos: usize) -> (String, Val) {
    // 0..11 attr(NASTY), 11..22 attr_quoted(NASTY), 22..26 integers
    let key = KEYS[pos % 4].to_string();
    let v = if c < 11 {
        Val::Attr(NASTY[c as usize].into())
    } else if c < 22 {
        Val::Quoted(NASTY[(c - 11) as usize].into())
    } else {
        match c - 22 {
            0 => Val::U32(0),
            1 => Val::U32(u32::MAX),
            2 => Val::U16(0),
            _ => Val::U16(u16::MAX),
        }
    };
    (key, v)
}

pub fn run_c16(ctx: &Ctx, rep: &mut Report) {
    // (a) every value string <= 4 (5) symbols x method x position x newline
    {
        let maxlen = if ctx.thorough() { 6 } else { 5 };
        let strings = mccore::strings_upto_count(13, maxlen);
        let radices = [strings, 2, 5, 2];
        let n = product(&radices);
        ctx.family(
            rep,
            "a-values",
            &format!("every value of <= {} symbols over {{\" \\ , ; < > space LF = a 1 é 😁}} x {{attr, attr_quoted}} x 5 positions (only / first / last attribute, first / second link) x newline option", maxlen),
            n,
            true,
            |i, rep| {
                let d = decode(i, &radices);
                let s: String = mccore::string_at(d[0], 13, maxlen).iter().map(|x| C16_SYMS[*x as usize]).collect();
                let v = if d[1] == 0 { Val::Attr(s) } else { Val::Quoted(s) };
                let other = ("if".to_string(), Val::Attr("sensor".into()));
                let me = ("title".to_string(), v);
                let doc: Doc = match d[2] {
                    0 => vec![Link { target: "/x".into(), attrs: vec![me] }],
                    1 => vec![Link { target: "/x".into(), attrs: vec![me, other] }],
                    2 => vec![Link { target: "/x".into(), attrs: vec![other, me] }],
                    3 => vec![Link { target: "/x".into(), attrs: vec![me] }, Link { target: "/y".into(), attrs: vec![other] }],
                    _ => vec![Link { target: "/y".into(), attrs: vec![other] }, Link { target: "/x".into(), attrs: vec![me] }],
                };
                c16_case("a-values", i, n, &doc, d[3] == 1, ctx, rep);
            },
        );
    }
    // (a2) "arbitrary Unicode text": control characters, percent, combining mark, NBSP, C1 control, non-BMP
    {
        let syms2: [&str; 12] = ["\t", "\r", "\u{7f}", "\u{1}", "\0", "%", "\u{301}", "\u{a0}", "\u{85}", "\u{1F620}", "\"", "a"];
        let maxlen = if ctx.thorough() { 4 } else { 3 };
        let strings = mccore::strings_upto_count(12, maxlen);
        let radices = [strings, 2, 2, 2];
        let n = product(&radices);
        ctx.family(
            rep,
            "a2-values-other-code-points",
            &format!("every value of <= {} symbols over {{TAB CR DEL U+0001 NUL % U+0301 NBSP U+0085 U+1F620 \" a}} x {{attr, attr_quoted}} x {{only attribute, followed by a second link}} x newline option", maxlen),
            n,
            true,
            |i, rep| {
                let d = decode(i, &radices);
                let s: String = mccore::string_at(d[0], 12, maxlen).iter().map(|x| syms2[*x as usize]).collect();
                let v = if d[1] == 0 { Val::Attr(s) } else { Val::Quoted(s) };
                let mut doc: Doc = vec![Link { target: "/x".into(), attrs: vec![("title".to_string(), v), ("if".to_string(), Val::Attr("s".into()))] }];
                if d[2] == 1 {
                    doc.push(Link { target: "/y".into(), attrs: vec![("rt".to_string(), Val::Quoted("t,u".into()))] });
                }
                c16_case("a2-values-other-code-points", i, n, &doc, d[3] == 1, ctx, rep);
            },
        );
    }
    // (a3) long values (longer than any internal buffer a writer might use)
    {
        let lens = [41usize, 127, 128, 129, 255, 256, 257, 1000, 1023, 1024, 1025, 2047, 2048, 2049, 4095, 4096, 4097, 8192, 10000, 65535, 65536, 65537, 100000];
        let radices = [lens.len() as u64, 3, 2];
        let n = product(&radices);
        ctx.family(rep, "a3-long-values", "values of 41..100000 characters (around powers of two) {plain, with a quote/backslash every 7th character, multi-byte} x {attr, attr_quoted}", n, true, |i, rep| {
            let d = decode(i, &radices);
            let len = lens[d[0] as usize];
            let s: String = (0..len)
                .map(|k| match (d[1], k % 7) {
                    (1, 3) => '"',
                    (1, 5) => '\\',
                    (2, _) => ['é', '😁', 'a'][k % 3],
                    _ => (b'a' + (k % 26) as u8) as char,
                })
                .collect();
            let v = if d[2] == 0 { Val::Attr(s) } else { Val::Quoted(s) };
            let doc: Doc = vec![Link { target: "/long".into(), attrs: vec![("title".to_string(), v)] }, Link { target: "/z".into(), attrs: vec![] }];
            c16_case("a3-long-values", i, n, &doc, false, ctx, rep);
        });
    }
    // (a4) every Unicode scalar value, alone and at the start / end / middle of a value
    {
        let radices = [0x110000u64, 4, 2];
        let n = product(&radices);
        ctx.family(
            rep,
            "a4-every-scalar-value",
            "every Unicode scalar value c (U+0000..U+10FFFF without surrogates) as the value {c, c+\"a\", \"a\"+c, \"a\"+c+\"a\"} x {attr, attr_quoted}, followed by a second attribute and a second link",
            n,
            true,
            |i, rep| {
                let d = decode(i, &radices);
                let c = match char::from_u32(d[0] as u32) {
                    Some(c) => c,
                    None => {
                        rep.count("skipped-surrogate");
                        return;
                    }
                };
                let s: String = match d[1] {
                    0 => c.to_string(),
                    1 => format!("{}a", c),
                    2 => format!("a{}", c),
                    _ => format!("a{}a", c),
                };
                let v = if d[2] == 0 { Val::Attr(s) } else { Val::Quoted(s) };
                let doc: Doc = vec![
                    Link { target: "/x".into(), attrs: vec![("title".to_string(), v), ("if".to_string(), Val::Attr("s".into()))] },
                    Link { target: "/y".into(), attrs: vec![] },
                ];
                c16_case("a4-every-scalar-value", i, n, &doc, false, ctx, rep);
            },
        );
    }
    // (a5) keys in every letter case (and a few other key shapes): "the same keys in order"
    {
        let names: [&str; 16] = ["rel", "anchor", "hreflang", "media", "title", "type", "rt", "if", "sz", "ct", "obs", "rev", "title*", "x-y", "é", "k1"];
        let mut offsets = vec![0u64];
        for nm in &names {
            offsets.push(offsets.last().unwrap() + (1u64 << nm.chars().count()));
        }
        let n = *offsets.last().unwrap() * 2;
        ctx.family(rep, "a5-keys-in-every-letter-case", "keys {rel, anchor, hreflang, media, title, type, rt, if, sz, ct, obs, rev, title*, x-y, é, k1} in every upper/lower-case spelling x {attr, attr_quoted}, next to the same key in lower case", n, true, |i, rep| {
            let j = i / 2;
            let k = match offsets.binary_search(&j) {
                Ok(k) => k,
                Err(k) => k - 1,
            };
            let mask = j - offsets[k];
            let key: String = names[k].chars().enumerate().map(|(p, c)| if mask >> p & 1 == 1 { c.to_uppercase().next().unwrap_or(c) } else { c }).collect();
            let v = if i % 2 == 0 { Val::Attr("v 1".into()) } else { Val::Quoted("w".into()) };
            let doc: Doc = vec![Link { target: "/x".into(), attrs: vec![(key, v), (names[k].to_string(), Val::U32(7))] }, Link { target: "/y".into(), attrs: vec![] }];
            c16_case("a5-keys-in-every-letter-case", i, n, &doc, false, ctx, rep);
        });
    }
    // (b1) one-link documents: target x <= 2 (3) attributes over 26 choices
    {
        let maxattrs = if ctx.thorough() { 3 } else { 2 };
        let lists = mccore::strings_upto_count(26, maxattrs);
        let radices = [8u64, lists, 2];
        let n = product(&radices);
        ctx.family(
            rep,
            "b1-one-link",
            &format!("one link: target over {:?} x every list of <= {} attributes over 11 nasty values x {{attr, attr_quoted}} + attr_u32/u16 {{0,max}} x newline option", TARGETS, maxattrs),
            n,
            true,
            |i, rep| {
                let d = decode(i, &radices);
                let attrs: Vec<(String, Val)> = mccore::string_at(d[1], 26, maxattrs).iter().enumerate().map(|(p, c)| attr_choice(*c, p)).collect();
                let doc = vec![Link { target: TARGETS[d[0] as usize].into(), attrs }];
                c16_case("b1-one-link", i, n, &doc, d[2] == 1, ctx, rep);
            },
        );
    }
    // (b2) documents of 0..=2 (3) links with <= 1 attribute each
    {
        let maxlinks = if ctx.thorough() { 3 } else { 2 };
        let per_link = 4 * 27u64; // 4 targets x (no attribute | 26 choices)
        let docs = mccore::strings_upto_count(per_link, maxlinks);
        let radices = [docs, 2];
        let n = product(&radices);
        let t4 = ["", "/a", ",", "a b"];
        ctx.family(
            rep,
            "b2-multi-link",
            &format!("documents of 0..={} links, each: target over {:?} x (no attribute | one of 26 attribute choices), x newline option", maxlinks, t4),
            n,
            true,
            |i, rep| {
                let d = decode(i, &radices);
                let doc: Doc = mccore::string_at(d[0], per_link, maxlinks)
                    .iter()
                    .map(|c| {
                        let target = t4[(c / 27) as usize].to_string();
                        let a = c % 27;
                        Link { target, attrs: if a == 0 { vec![] } else { vec![attr_choice(a - 1, (c / 27) as usize)] } }
                    })
                    .collect();
                c16_case("b2-multi-link", i, n, &doc, d[1] == 1, ctx, rep);
            },
        );
    }
    // (b3) document shapes up to 4 links x 4 attributes
    {
        let radices = [5u64, 5, 5, 5, 5, 2, 3];
        let n = product(&radices);
        ctx.family(
            rep,
            "b3-shapes-4x4",
            "documents of 0..=4 links with 0..=4 attributes each (every shape), values and methods rotating over the 26 attribute choices with 3 different offsets, x newline option",
            n,
            true,
            |i, rep| {
                let d = decode(i, &radices);
                let nlinks = d[0] as usize;
                let mut doc: Doc = Vec::new();
                let mut pos = d[6] as usize * 7;
                for l in 0..nlinks {
                    let na = d[1 + l] as usize;
                    let attrs = (0..na)
                        .map(|a| {
                            pos += 5;
                            attr_choice(((pos + a * 11) % 26) as u64, pos + a)
                        })
                        .collect();
                    doc.push(Link { target: TARGETS[(l * 3 + d[6] as usize) % 8].into(), attrs });
                }
                c16_case("b3-shapes-4x4", i, n, &doc, d[5] == 1, ctx, rep);
            },
        );
    }
    rep.assume("targets contain no '>' and keys no separators, as the property states; integers are compared by their decimal text");
    rep.assume("random values up to length 40 named in the quantifier are replaced by the exhaustive value family (a)");
}

// ---------------------------------------------------------------------------
// C17
// ---------------------------------------------------------------------------

const C17_SYMS: [&str; 10] = ["<", ">", ";", ",", "\"", "\\", "=", " ", "a", "é"];

fn within(hay: &str, sub: &str) -> Option<usize> {
    if sub.is_empty() {
        return Some(usize::MAX); // trivially a substring; position unknown
    }
    let h0 = hay.as_ptr() as usize;
    let s0 = sub.as_ptr() as usize;
    if s0 >= h0 && s0 + sub.len() <= h0 + hay.len() {
        Some(s0 - h0)
    } else if hay.contains(sub) {
        // equal text that does not point into the input (an interned key, say): a substring by content, position
        // unknown - the statement speaks about text, not about pointers
        Some(usize::MAX)
    } else {
        None
    }
}

/// Walks everything the parser yields for `s`; Err((signature, what)) on the first oracle failure.
fn c17_walk(s: &str) -> Result<(usize, usize, usize, bool), (String, String)> {
    let cap = s.len() + 2;
    let mut it = LinkFormatParser::new(s);
    let mut links = 0usize;
    let mut attrs_total = 0usize;
    let mut values_quoted = 0usize;
    let mut saw_err = false;
    let mut last_off = 0usize;
    loop {
        let item = it.next();
        match item {
            None => break,
            Some(Err(_)) => {
                saw_err = true;
                for k in 0..3 {
                    if let Some(x) = it.next() {
                        return Err((
                            "C17/yields-after-error".into(),
                            format!("call {} after the first error yielded {:?}", k + 1, x.map(|l| l.0.to_string())),
                        ));
                    }
                }
                break;
            }
            Some(Ok((link, ap))) => {
                links += 1;
                if links > cap {
                    return Err(("C17/link-iterator-does-not-terminate".into(), format!("more than {} links", cap)));
                }
                match within(s, link) {
                    None => return Err(("C17/link-not-a-substring".into(), format!("link {:?} is not a sub-slice of the input", link))),
                    Some(usize::MAX) => {}
                    Some(off) => {
                        if off < last_off {
                            return Err(("C17/not-left-to-right".into(), format!("link {:?} at offset {} after an item at {}", link, off, last_off)));
                        }
                        last_off = off;
                    }
                }
                let mut n = 0usize;
                for (key, val) in ap {
                    n += 1;
                    attrs_total += 1;
                    if n > cap {
                        return Err(("C17/attribute-iterator-does-not-terminate".into(), format!("more than {} attributes", cap)));
                    }
                    match within(s, key) {
                        None => return Err(("C17/key-not-a-substring".into(), format!("key {:?} is not a sub-slice of the input", key))),
                        Some(usize::MAX) => {}
                        Some(off) => {
                            if off < last_off {
                                return Err(("C17/not-left-to-right".into(), format!("key {:?} at offset {} after an item at {}", key, off, last_off)));
                            }
                            last_off = off;
                        }
                    }
                    let raw = val.clone().into_raw_str();
                    match within(s, raw) {
                        None => return Err(("C17/value-not-a-substring".into(), format!("raw value {:?} is not a sub-slice of the input", raw))),
                        Some(usize::MAX) => {}
                        Some(off) => {
                            if off < last_off {
                                return Err(("C17/not-left-to-right".into(), format!("value {:?} at offset {} after an item at {}", raw, off, last_off)));
                            }
                            last_off = off;
                        }
                    }
                    if val.is_quoted() {
                        values_quoted += 1;
                    }
                    unquote_agree(&val)?;
                }
            }
        }
    }
    Ok((links, attrs_total, values_quoted, saw_err))
}

fn unquote_agree(val: &Unquote<'_>) -> Result<(), (String, String)> {
    let raw = val.clone().into_raw_str();
    let cap = raw.len() + 2;
    let mut chars = String::new();
    let mut n = 0;
    for c in val.clone() {
        n += 1;
        if n > cap {
            return Err(("C17/unquote-does-not-terminate".into(), format!("more than {} characters from {:?}", cap, raw)));
        }
        chars.push(c);
    }
    let ts = val.to_string();
    if ts != chars {
        return Err(("C17/to_string-differs-from-iteration".into(), format!("{:?}: to_string {:?}, iteration {:?}", raw, ts, chars)));
    }
    let cow = val.to_cow();
    if cow != ts {
        return Err(("C17/to_cow-differs-from-to_string".into(), format!("{:?}: to_cow {:?}, to_string {:?}", raw, cow, ts)));
    }
    Ok(())
}

pub fn run_c17(ctx: &Ctx, rep: &mut Report) {
    // every string over the property's alphabet
    {
        let maxlen = if ctx.thorough() && ctx.config == "oc" { 9 } else if ctx.thorough() { 8 } else { 7 };
        let n = mccore::strings_upto_count(10, maxlen);
        ctx.family(
            rep,
            "all-strings",
            &format!("every string of length 0..={} over {{< > ; , \" \\ = space a é}}: termination, sub-slices in left-to-right order, nothing after the first error, to_cow == to_string", maxlen),
            n,
            true,
            |i, rep| {
                let s: String = mccore::string_at(i, 10, maxlen).iter().map(|x| C17_SYMS[*x as usize]).collect();
                match guard(|| c17_walk(&s)) {
                    Err(pn) => rep.violation(viol("all-strings", i, format!("C17/panic@{}", pn.site()), pn.message, Json::obj().set("input", s.as_str()))),
                    Ok(Err((sig, what))) => rep.violation(viol("all-strings", i, sig, what, Json::obj().set("input", s.as_str()))),
                    Ok(Ok((links, attrs, quoted, err))) => {
                        rep.count(if err { "ends-with-parse-error" } else { "parsed-to-the-end" });
                        rep.bucket(&(links.min(4), attrs.min(4), quoted.min(3), err));
                    }
                }
                if ctx.want_sample(i, n) {
                    rep.sample(Json::obj().set("family", "all-strings").set("index", i).set("input", s.as_str()));
                }
            },
        );
    }
    // a wider alphabet: code points whose UTF-8 encoding ends in bytes that byte-wise scanners mistake for
    // white space or structure (C3 A0, C3 85, C2 A0, C2 85, F0 9F 98 A0), tab, and the structural characters
    {
        let syms: [&str; 13] = ["<", ">", ";", ",", "\"", "\\", "=", " ", "a", "à", "\u{a0}", "\u{1F620}", "Å"];
        let maxlen = if ctx.thorough() && ctx.config == "oc" { 8 } else if ctx.thorough() { 7 } else { 6 };
        let n = mccore::strings_upto_count(13, maxlen);
        ctx.family(
            rep,
            "all-strings-wide-alphabet",
            &format!("every string of length 0..={} over {{< > ; , \" \\ = space a à NBSP U+1F620 Å}}", maxlen),
            n,
            true,
            |i, rep| {
                let s: String = mccore::string_at(i, 13, maxlen).iter().map(|x| syms[*x as usize]).collect();
                match guard(|| c17_walk(&s)) {
                    Err(pn) => rep.violation(viol("all-strings-wide-alphabet", i, format!("C17/panic@{}", pn.site()), pn.message, Json::obj().set("input", s.as_str()))),
                    Ok(Err((sig, what))) => rep.violation(viol("all-strings-wide-alphabet", i, sig, what, Json::obj().set("input", s.as_str()))),
                    Ok(Ok((links, attrs, quoted, err))) => {
                        rep.count(if err { "ends-with-parse-error" } else { "parsed-to-the-end" });
                        rep.bucket(&("wide", links.min(4), attrs.min(4), quoted.min(3), err));
                    }
                }
            },
        );
    }
    // every Unicode scalar value in every structural position
    {
        let templates: [&str; 14] = ["@", "<@>", "<a>@", "<a>;@", "<a>;@=1", "<a>;k=@", "<a>;k=@x", "<a>;k=x@", "<a>;k=\"@\"", "<a>;k=\"\\@\"", "<a>;k=\"@", "<a>;k=\"x\"@", "<a>@,<b>", "<a>;k=v@;j=w,@<b>"];
        let radices = [0x110000u64, templates.len() as u64];
        let n = product(&radices);
        ctx.family(
            rep,
            "every-scalar-value-in-context",
            &format!("every Unicode scalar value substituted for @ in each of {:?}", templates),
            n,
            true,
            |i, rep| {
                let d = decode(i, &radices);
                let c = match char::from_u32(d[0] as u32) {
                    Some(c) => c,
                    None => {
                        rep.count("skipped-surrogate");
                        return;
                    }
                };
                let mut buf = [0u8; 4];
                let s = templates[d[1] as usize].replace('@', c.encode_utf8(&mut buf));
                match guard(|| c17_walk(&s)) {
                    Err(pn) => rep.violation(viol("every-scalar-value-in-context", i, format!("C17/panic@{}", pn.site()), pn.message, Json::obj().set("input", s.as_str()))),
                    Ok(Err((sig, what))) => rep.violation(viol("every-scalar-value-in-context", i, sig, what, Json::obj().set("input", s.as_str()))),
                    Ok(Ok((links, attrs, quoted, err))) => {
                        rep.count(if err { "ends-with-parse-error" } else { "parsed-to-the-end" });
                        rep.bucket(&("scalar", d[1], links.min(4), attrs.min(4), quoted.min(3), err));
                    }
                }
            },
        );
    }
    // attribute keys in every letter case (parameter names are case-insensitive in RFC 8288; the parser must still
    // hand back what the input says)
    {
        let names: [&str; 14] = ["rel", "anchor", "hreflang", "media", "title", "type", "rt", "if", "sz", "ct", "obs", "rev", "title*", "x-y"];
        let mut offsets = vec![0u64];
        for nm in &names {
            offsets.push(offsets.last().unwrap() + (1u64 << nm.len()));
        }
        let short = 52 + 52 * 52 + 52 * 52 * 52;
        let total_masks = *offsets.last().unwrap();
        let n = (total_masks + short) * 3;
        ctx.family(
            rep,
            "attribute-keys-in-every-letter-case",
            "keys {rel, anchor, hreflang, media, title, type, rt, if, sz, ct, obs, rev, title*, x-y} in every upper/lower-case spelling, and every key of 1..=3 ASCII letters (both cases), in the forms `<a>;K=v`, `<a>;K`, `<a>;k=1;K=\"v\",<b>;K=2`",
            n,
            true,
            |i, rep| {
                let form = i % 3;
                let j = i / 3;
                let key: String = if j < total_masks {
                    let k = match offsets.binary_search(&j) {
                        Ok(k) => k,
                        Err(k) => k - 1,
                    };
                    let mask = j - offsets[k];
                    names[k].chars().enumerate().map(|(p, c)| if mask >> p & 1 == 1 { c.to_ascii_uppercase() } else { c }).collect()
                } else {
                    let mut x = j - total_masks;
                    let letters = b"abcdefghijklmnopqrstuvwxyzABCDEFGHIJKLMNOPQRSTUVWXYZ";
                    let len = if x < 52 {
                        1
                    } else if x < 52 + 52 * 52 {
                        x -= 52;
                        2
                    } else {
                        x -= 52 + 52 * 52;
                        3
                    };
                    (0..len).map(|p| letters[((x / 52u64.pow(p)) % 52) as usize] as char).collect()
                };
                let s = match form {
                    0 => format!("<a>;{}=v", key),
                    1 => format!("<a>;{}", key),
                    _ => format!("<a>;k=1;{}=\"v\",<b>;{}=2", key, key),
                };
                match guard(|| c17_walk(&s)) {
                    Err(pn) => rep.violation(viol("attribute-keys-in-every-letter-case", i, format!("C17/panic@{}", pn.site()), pn.message, Json::obj().set("input", s.as_str()))),
                    Ok(Err((sig, what))) => rep.violation(viol("attribute-keys-in-every-letter-case", i, sig, what, Json::obj().set("input", s.as_str()))),
                    Ok(Ok((links, attrs, quoted, err))) => {
                        rep.count(if err { "ends-with-parse-error" } else { "parsed-to-the-end" });
                        rep.bucket(&("keycase", form, key.len().min(4), links.min(4), attrs.min(4), quoted.min(3), err));
                    }
                }
            },
        );
    }
    // Unquote::new directly
    {
        let syms = ["\"", "\\", "a", "é", " ", ","];
        let maxlen = if ctx.thorough() { 8 } else { 6 };
        let n = mccore::strings_upto_count(6, maxlen);
        ctx.family(
            rep,
            "unquote-direct",
            &format!("Unquote::new on every string of length 0..={} over {{\" \\ a é space ,}}: to_cow == to_string == character iteration", maxlen),
            n,
            true,
            |i, rep| {
                let s: String = mccore::string_at(i, 6, maxlen).iter().map(|x| syms[*x as usize]).collect();
                match guard(|| unquote_agree(&Unquote::new(&s))) {
                    Err(pn) => rep.violation(viol("unquote-direct", i, format!("C17/panic@{}", pn.site()), pn.message, Json::obj().set("input", s.as_str()))),
                    Ok(Err((sig, what))) => rep.violation(viol("unquote-direct", i, sig, what, Json::obj().set("input", s.as_str()))),
                    Ok(Ok(())) => {
                        rep.count("unquote-paths-agree");
                        rep.bucket(&(s.starts_with('"'), s.contains('\\'), s.matches('"').count().min(3), s.len().min(3)));
                    }
                }
            },
        );
    }
    // every prefix of well-formed documents
    {
        let mut docs: Vec<String> = Vec::new();
        for c1 in 0..26u64 {
            for c2 in [0u64, 5, 13, 17, 23] {
                for nl in [false, true] {
                    let doc = vec![
                        Link { target: "/a b".into(), attrs: vec![attr_choice(c1, 0), attr_choice(c2, 1)] },
                        Link { target: ",".into(), attrs: vec![attr_choice(c2, 2)] },
                    ];
                    let mut out = String::new();
                    let _ = write_doc(&mut out, &doc, nl);
                    docs.push(out);
                }
            }
        }
        let mut offsets = vec![0u64];
        for d in &docs {
            let prefixes = d.char_indices().count() as u64 + 1;
            offsets.push(offsets.last().unwrap() + prefixes);
        }
        let n = *offsets.last().unwrap();
        ctx.family(rep, "prefixes-of-documents", &format!("every character-boundary prefix of {} writer-produced documents", docs.len()), n, true, |i, rep| {
            let k = match offsets.binary_search(&i) {
                Ok(k) => k,
                Err(k) => k - 1,
            };
            let d = &docs[k];
            let j = (i - offsets[k]) as usize;
            let cut = d.char_indices().map(|x| x.0).chain(std::iter::once(d.len())).nth(j).unwrap();
            let s = &d[..cut];
            match guard(|| c17_walk(s)) {
                Err(pn) => rep.violation(viol("prefixes-of-documents", i, format!("C17/panic@{}", pn.site()), pn.message, Json::obj().set("input", s))),
                Ok(Err((sig, what))) => rep.violation(viol("prefixes-of-documents", i, sig, what, Json::obj().set("input", s))),
                Ok(Ok((links, attrs, quoted, err))) => {
                    rep.count(if err { "ends-with-parse-error" } else { "parsed-to-the-end" });
                    rep.bucket(&("pre", links.min(4), attrs.min(4), quoted.min(3), err));
                }
            }
        });
    }
    rep.assume("an empty yielded slice is trivially a substring (the parser returns a static \"\" for a key without '='); offsets are checked for non-empty slices");
    rep.assume("each single next() call scans a finite string; non-termination of a call would be caught by the 20 s watchdog");
}

// ---------------------------------------------------------------------------
// C18
// ---------------------------------------------------------------------------

#[derive(Clone, Copy, Debug, PartialEq)]
enum Fault {
    None,
    Once(usize),
    From(usize),
    Pair(usize, usize),
}

struct Sink {
    buf: String,
    calls: usize,
    fault: Fault,
    /// cumulative buffer length after each successful call, for the fault-free run
    marks: Vec<usize>,
    wrote_after_fault: bool,
    faulted: bool,
}

impl Sink {
    fn new(fault: Fault) -> Sink {
        Sink { buf: String::new(), calls: 0, fault, marks: Vec::new(), wrote_after_fault: false, faulted: false }
    }
}

impl Write for Sink {
    fn write_str(&mut self, s: &str) -> std::fmt::Result {
        let k = self.calls;
        self.calls += 1;
        let fail = match self.fault {
            Fault::None => false,
            Fault::Once(a) => k == a,
            Fault::From(a) => k >= a,
            Fault::Pair(a, b) => k == a || k == b,
        };
        if fail {
            self.faulted = true;
            return Err(std::fmt::Error);
        }
        if self.faulted {
            self.wrote_after_fault = true;
        }
        self.buf.push_str(s);
        self.marks.push(self.buf.len());
        Ok(())
    }
}

fn c18_docs(thorough: bool) -> Vec<Doc> {
    // <= 3 links x <= 3 attributes, all three attribute methods, values that need escaping
    let vals: Vec<Val> = vec![
        Val::Attr("plain".into()),
        Val::Attr("needs quote".into()),
        Val::Quoted("q\"uo\\te".into()),
        Val::Quoted("".into()),
        Val::U32(4_000_000_000),
        Val::U16(7),
    ];
    let nv = vals.len() as u64;
    let mut docs = Vec::new();
    let attr_lists = mccore::strings_upto_count(nv, if thorough { 3 } else { 2 });
    let maxa = if thorough { 3 } else { 2 };
    // one link, every attribute list
    for a in 0..attr_lists {
        let attrs: Vec<(String, Val)> =
            mccore::string_at(a, nv, maxa).iter().enumerate().map(|(p, c)| (KEYS[p % 4].to_string(), vals[*c as usize].clone())).collect();
        docs.push(vec![Link { target: "/sensor/é".into(), attrs }]);
    }
    // two and three links with <= 1 attribute each
    let per = nv + 1;
    for l in 2..=3u32 {
        for c in 0..per.pow(l) {
            let d = decode(c, &vec![per; l as usize]);
            let doc: Doc = d
                .iter()
                .enumerate()
                .map(|(p, a)| Link {
                    target: ["/a", "", "/b c"][p % 3].to_string(),
                    attrs: if *a == 0 { vec![] } else { vec![(KEYS[p % 4].to_string(), vals[(*a - 1) as usize].clone())] },
                })
                .collect();
            docs.push(doc);
        }
    }
    // three links with two attributes each (escaping in every position)
    docs.push(
        (0..3)
            .map(|p| Link {
                target: format!("/l{}", p),
                attrs: vec![("rt".into(), vals[2].clone()), ("sz".into(), vals[4].clone()), ("if".into(), vals[1].clone())],
            })
            .collect(),
    );
    // long values: longer than any scratch buffer a writer might use (escapes in the middle and at chunk edges)
    for len in [127usize, 128, 129, 300] {
        let long: String = (0..len).map(|k| if k % 50 == 49 { '"' } else if k % 64 == 63 { '\\' } else { (b'a' + (k % 26) as u8) as char }).collect();
        docs.push(vec![
            Link { target: "/a".into(), attrs: vec![("title".into(), Val::Quoted(long.clone())), ("ct".into(), Val::U16(40))] },
            Link { target: "/b".into(), attrs: vec![("rt".into(), Val::Attr(long.clone()))] },
        ]);
    }
    docs.push(vec![]);
    docs
}

pub fn run_c18(ctx: &Ctx, rep: &mut Report) {
    let docs = c18_docs(true);
    c18_family(ctx, rep, "fault-positions", &docs, true);
    // very long values (a writer that batches its output into a scratch buffer flushes in the middle of a value):
    // every single fault position, failing once or persistently; no pairs
    let mut long_docs: Vec<Doc> = Vec::new();
    let lens: &[usize] = if ctx.thorough() { &[1023, 1024, 1025, 2047, 2048, 2049, 4095, 4096, 4097, 8192, 10000, 20000] } else { &[1024, 2048, 2049, 4097] };
    for len in lens {
        for style in 0..2 {
            let long: String = (0..*len)
                .map(|k| match (style, k) {
                    (0, k) if k % 50 == 49 => '"',
                    (0, k) if k % 64 == 63 => '\\',
                    (1, k) if k % 3 == 0 => 'é',
                    (1, k) if k % 5 == 0 => '😁',
                    (_, k) => (b'a' + (k % 26) as u8) as char,
                })
                .collect();
            long_docs.push(vec![
                Link { target: "/a".into(), attrs: vec![("title".into(), Val::Quoted(long.clone())), ("ct".into(), Val::U16(40))] },
                Link { target: "/b".into(), attrs: vec![("rt".into(), Val::Attr(long.clone()))] },
            ]);
        }
    }
    c18_family(ctx, rep, "fault-positions-very-long-values", &long_docs, false);
    rep.assume("the sink fails by returning fmt::Error from write_str (write_char and write_fmt go through it); a failed call writes nothing");
    rep.assume("'finally reported' = the result of LinkFormatWrite::finish(), the last finish() issued");
}

fn c18_family(ctx: &Ctx, rep: &mut Report, fam: &'static str, docs: &[Doc], pairs: bool) {
    // fault-free runs: number of sink calls per (doc, newline)
    let mut calls: Vec<usize> = Vec::new();
    for d in docs {
        for nl in [false, true] {
            let mut s = Sink::new(Fault::None);
            let _ = write_doc(&mut s, d, nl);
            calls.push(s.calls);
        }
    }
    // index space: for (doc, nl) with c calls: 1 fault-free + c once + c persistent (+ pairs in thorough)
    let mut offsets = vec![0u64];
    for c in &calls {
        let c = *c as u64;
        let cnt = 1 + 2 * c + if pairs { c * c.saturating_sub(1) / 2 } else { 0 };
        offsets.push(offsets.last().unwrap() + cnt);
    }
    let n = *offsets.last().unwrap();
    let desc = format!(
        "{} documents (<= 3 links x <= 3 attributes, attr/attr_quoted/attr_u32/attr_u16, values needing escapes) x newline option x {{no fault, fail call k only, fail call k and all later{}}} for every k - complete per document",
        docs.len(),
        if pairs { ", fail exactly calls k1 < k2" } else { "" }
    );
    ctx.family(rep, fam, &desc, n, true, |i, rep| {
        let dn = match offsets.binary_search(&i) {
            Ok(k) => k,
            Err(k) => k - 1,
        };
        let doc = &docs[dn / 2];
        let nl = dn % 2 == 1;
        let c = calls[dn];
        let j = (i - offsets[dn]) as usize;
        let fault = if j == 0 {
            Fault::None
        } else if j <= c {
            Fault::Once(j - 1)
        } else if j <= 2 * c {
            Fault::From(j - 1 - c)
        } else {
            // pair index -> (a, b), a < b
            let mut p = j - 1 - 2 * c;
            let mut a = 0usize;
            loop {
                let row = c - 1 - a;
                if p < row {
                    break;
                }
                p -= row;
                a += 1;
            }
            Fault::Pair(a, a + 1 + p)
        };
        let case = || doc_json(doc, nl).set("fault", format!("{:?}", fault)).set("sink_calls_without_fault", c);
        let r = guard(|| {
            let mut clean = Sink::new(Fault::None);
            let _ = write_doc(&mut clean, doc, nl);
            let mut s = Sink::new(fault);
            let results = write_doc(&mut s, doc, nl);
            (clean, s, results)
        });
        match r {
            Err(pn) => rep.violation(viol(fam, i, format!("C18/panic@{}", pn.site()), pn.message, case())),
            Ok((clean, s, results)) => {
                let first_fault = match fault {
                    Fault::None => None,
                    Fault::Once(a) | Fault::From(a) | Fault::Pair(a, _) => Some(a),
                };
                match first_fault {
                    None => {
                        if results.iter().all(|r| r.is_ok()) && s.buf == clean.buf {
                            rep.count("fault-free-complete");
                            rep.bucket(&("clean", doc.len(), nl));
                        } else {
                            rep.violation(viol(fam, i, "C18/error-without-fault", "a finish() failed although the sink never failed", case()));
                        }
                    }
                    Some(k) => {
                        let prefix_len = if k == 0 { 0 } else { clean.marks[k - 1] };
                        let expect = &clean.buf[..prefix_len];
                        let final_res = results.last().unwrap();
                        if s.buf != expect {
                            rep.violation(viol(
                                fam,
                                i,
                                "C18/text-written-after-failed-write",
                                format!("sink holds {:?}, the fault-free text of calls 0..{} is {:?}", s.buf, k, expect),
                                case(),
                            ));
                        } else if final_res.is_ok() {
                            rep.violation(viol(
                                fam,
                                i,
                                "C18/failure-not-reported",
                                format!("sink call {} failed but the writer's final finish() is Ok", k),
                                case(),
                            ));
                        } else {
                            rep.count("fault-reported-prefix-kept");
                            rep.bucket(&("fault", matches!(fault, Fault::Once(_)), matches!(fault, Fault::Pair(..)), nl, k.min(12), doc.len()));
                        }
                    }
                }
            }
        }
        if ctx.want_sample(i, n) {
            rep.sample(Json::obj().set("family", fam).set("index", i).set("case", case()));
        }
    });
    rep.note(&format!("{}_documents", fam), docs.len());
    rep.note(&format!("{}_max_sink_calls_per_document", fam), *calls.iter().max().unwrap_or(&0));
}
