#!/usr/bin/env python3
"""Rewrites the detection tables in DESIGN.md (between the DETECTION-TABLES markers) from
mutants/RESULTS.md and seeded/*/meta.json."""
import glob
import json
import os
import re

V = os.path.dirname(os.path.dirname(os.path.abspath(__file__)))
out = []
out.append("#### Hand-written and reverse-fix mutants (`mutants/`, run by `mutants/selftest.py`)\n")
res = os.path.join(V, "mutants", "RESULTS.md")
if os.path.exists(res):
    rows = [l for l in open(res) if l.startswith("| ") and not l.startswith("| mutant") and not l.startswith("|---")]
    out.append("| mutant | property | repository tests | check | first signatures |\n|---|---|---|---|---|\n" + "".join(rows))
    det = sum("DETECTED" in r for r in rows)
    out.append(f"\n{det} of {len(rows)} (mutant, property) pairs detected on two consecutive runs.\n")
out.append("\n#### Changes written by independent sub-agents (`seeded/<ID>-<X>/`, confirmed and run by `seeded/verify.py`)\n")
out.append("A/B, E, F, J, K and L: the author saw only the property text and a scratch worktree (E also the earlier notes). C/D, G, H "
           "and I (adversarial rounds): the author was additionally told which bounds the checks enumerate and asked for "
           "changes outside them. A change that was missed at first has a second record, `meta_before_strengthening.json`, "
           "next to `meta.json`; `meta_final.json` is the regression run of every change of rounds A-I against the final "
           "checks (rounds J, K and L were written afterwards and run against the same checks).\n\n")
out.append("| change | confirmed (49 tests pass, demo fails with / passes without) | detected by | before strengthening | final regression | signatures | what it needs (from notes.md) |\n|---|---|---|---|---|---|---|\n")
for d in sorted(glob.glob(os.path.join(V, "seeded", "C*-*"))):
    mp = os.path.join(d, "meta.json")
    if not os.path.exists(mp):
        out.append(f"| {os.path.basename(d)} | (not verified yet) | | | | | |\n")
        continue
    m = json.load(open(mp))
    sigs = []
    for c, v in m["checks"].items():
        for r in v["runs"][:1]:
            sigs += r["signatures"][:2]
    need = m.get("needs", "")
    if not need:
        notes = os.path.join(d, "notes.md")
        if os.path.exists(notes):
            txt = open(notes).read()
            mm = re.search(r"(?i)(manifest|trigger|needs?)[^\n]*\n+(.{20,260})", txt, re.S)
            need = " ".join((mm.group(2) if mm else txt[:200]).split())[:230]
    bp = os.path.join(d, "meta_before_strengthening.json")
    before = ""
    if os.path.exists(bp):
        b = json.load(open(bp))
        before = ", ".join(b["detected_by"]) or "missed"
    fp = os.path.join(d, "meta_final.json")
    final = ""
    if os.path.exists(fp):
        fm = json.load(open(fp))
        final = ", ".join(fm["detected_by"]) or ("thorough tier only" if fm.get("thorough_tier", {}).get("detected") else ("reclassified as allowed" if fm.get("reclassified") else "missed by its own check"))
    det = ', '.join(m['detected_by']) or ('thorough tier only' if m.get('thorough_tier', {}).get('detected') else '**missed**')
    out.append(f"| {m['name']} | {'yes' if m['confirmed'] else 'NO'} | {det} | {before} | {final} | {', '.join(sigs)[:160]} | {need.replace('|', '/')} |\n")
text = "".join(out)
p = os.path.join(V, "DESIGN.md")
s = open(p).read()
a, b = "<!-- DETECTION-TABLES:BEGIN -->", "<!-- DETECTION-TABLES:END -->"
if a not in s:
    s += f"\n{a}\n{b}\n"
s = s[: s.index(a) + len(a)] + "\n" + text + s[s.index(b):]
open(p, "w").write(s)
print("tables written:", text.count("\n"), "lines")
