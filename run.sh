#!/bin/sh
# Single entry point used by MANIFEST.json; see run.py for the sub-commands.
cd "$(dirname "$0")" || exit 2
exec python3 run.py "$@"
