#!/usr/bin/env python3
"""False-alarm test: a change that keeps every property true must not raise any alarm.

usage: verify.py <dir> ...      each <dir> holds patch.diff (+ notes.md) of a behaviour-preserving / allowed change.
On a scratch copy of /repo: apply the patch, run the repository tests (49 must pass), then run EVERY property's
quick check against the copy; all must exit 0 without a VIOLATION line.  Writes <dir>/meta.json.
"""
import glob
import hashlib
import json
import os
import re
import shutil
import subprocess
import sys
import time

VERIF = os.path.dirname(os.path.dirname(os.path.abspath(__file__)))
ALL = [c for c in (os.environ.get("VERIF_ONLY") or ",".join(f"C{n:02d}" for n in range(1, 21))).split(",") if c]


def sh(cmd, **kw):
    return subprocess.run(cmd, stdout=subprocess.PIPE, stderr=subprocess.STDOUT, text=True, **kw)


def one(d):
    d = os.path.abspath(d)
    name = os.path.basename(d)
    # a fixed scratch path (per slot) keeps the dependency builds of the overriding copy warm between changes
    scratch = "/root/scratch/sound-slot-" + os.environ.get("VERIF_SLOT", "0")
    repo = os.path.join(scratch, "repo")
    shutil.rmtree(scratch, ignore_errors=True)
    os.makedirs(scratch)
    sh(["rsync", "-a", "--exclude", "target", "--exclude", ".git", "/repo/", repo + "/"])
    r = sh(["git", "apply", "--unsafe-paths", "--directory", repo, os.path.join(d, "patch.diff")], cwd="/")
    if r.returncode != 0:
        r = sh(["patch", "-p1", "-i", os.path.join(d, "patch.diff")], cwd=repo)
    meta = dict(name=name, patch_applies=r.returncode == 0, verified_at=time.strftime("%Y-%m-%d %H:%M:%S"))
    env = dict(os.environ, CARGO_TARGET_DIR=os.path.join(scratch, "target-tests"), CARGO_NET_OFFLINE="true")
    env.pop("RUSTFLAGS", None)
    t = sh(["cargo", "test", "--workspace", "--no-fail-fast", "--offline"], cwd=repo, env=env)
    m = re.search(r"test result: (\w+)\. (\d+) passed; (\d+) failed", t.stdout)
    meta["repository_tests"] = dict(passed=int(m.group(2)) if m else None, failed=int(m.group(3)) if m else None)
    meta["checks"] = {}
    alarms = []
    for c in ALL:
        env2 = dict(os.environ, VERIF_REPO_OVERRIDE=repo, VERIF_OUT_DIR=os.path.join(scratch, "out"))
        t0 = time.time()
        p = sh([os.path.join(VERIF, "run.sh"), c, "quick"], env=env2)
        sigs = sorted(set(re.findall(r"^  (C\d+/[^:]+): (.*)$", p.stdout, re.M)))
        rec = dict(exit=p.returncode, wall_s=round(time.time() - t0, 1), signatures=[f"{a}: {b[:160]}" for a, b in sigs[:5]])
        if p.returncode != 0:
            rec["tail"] = p.stdout[-600:]
            alarms.append(c)
        meta["checks"][c] = rec
    meta["alarms"] = alarms
    json.dump(meta, open(os.path.join(d, "meta.json"), "w"), indent=1)
    shutil.rmtree(scratch, ignore_errors=True)
    if os.environ.get("VERIF_LAST"):  # the caller says this was the last change for this slot
        for t in glob.glob(os.path.join(VERIF, "mc", "target*-mut-" + hashlib.md5(repo.encode()).hexdigest()[:8])):
            shutil.rmtree(t, ignore_errors=True)
    print(f"{name}: tests={meta['repository_tests']} alarms={alarms} "
          f"{[meta['checks'][c]['signatures'][:2] for c in alarms]}", flush=True)


if __name__ == "__main__":
    for d in sys.argv[1:]:
        if os.path.exists(os.path.join(d, "patch.diff")) and not os.path.exists(os.path.join(d, "meta.json")):
            one(d)
